"""C16 - verbosity and stream choice never change the outcome; the trace is truthful."""
import families, report, common_parse as cp
def run(tier, seed):
    d = {g.name: g for g in families.g_dir() + families.g_err()}
    R = report.Run('C16', tier, seed); cases = []
    if tier == 'quick': sel = [(d['interl'], [2]), (d['lrece'], [2]), (d['d1'], [2]), (d['er2'], [2]), (d['nullrun'], [2])]
    else: sel = [(d[n], [1, 2] if n != 'interl' else [1, 2, 3]) for n in ('interl', 'd1', 'd2', 'lrece', 'rrece', 'etf', 'chain', 'nullrun', 'e123', 'er1', 'er2', 'er3')]
    # run 1: no stream, verbose off; run 2: recording stream, verbose on.  Same optional / value / functor calls; the verbose event log is the reference action sequence
    cp.run_parse_property('C16', tier, seed, sel, ['accept', 'value', 'dual', 'trace'], '', cp.STD_OUTSIDE + ['std::ostream formatting (the pieces streamed are observed)'],
                          cp.STD_ASSUME + ['verbose log compared through a rolling add/rotate hash over (kind, line, column, term / rule / lexeme) plus printed state numbers up to a bijection; '
                                           'the repeated "Recognized <eof>" announcements are not part of the compared log'],
                          verbose=1, ws=1, nl=1, validate_cf=False, wit_every=2, finish=False, R=R, defer=cases, variant='dual')
    return cp.run_deferred(R, tier, cases,
        'one query per (grammar, exact input length): the same bytes are parsed twice inside one harness - with utils::no_stream and verbose off, and with a recording stream and verbose on; '
        'optional, value and functor calls must agree, and the verbose event log (recognised terms, shifts, reductions with rule numbers, gotos, recovery events, and the non-verbose messages among them) '
        'must equal the reference action sequence')
