"""C18 - a custom lexer drives the parser under the same contract as the generated one."""
import families, report, common_parse as cp
def run(tier, seed):
    d = {g.name: g for g in families.g_dir() + families.g_err()}
    R = report.Run('C18', tier, seed); cases = []
    if tier == 'quick': sel = [(d['etf'], [2]), (d['lrec'], [2]), (d['mutual'], [2])]; sel2 = [(d['er1'], [2]), (d['rrec'], [2])]
    else: sel = [(d[n], [1, 2, 3, 4]) for n in ('etf', 'lrec', 'rrece', 'nullrun', 'mutual', 'd1', 'd2', 'lalr', 'chain')]; sel2 = [(d[n], [2, 3, 4]) for n in ('er1', 'er2', 'd1', 'trail')]
    A = ['accept', 'value', 'messages', 'positions', 'lexcalls']
    ass = cp.STD_ASSUME[1:] + ['the lexer is a stub: the answer to a request at offset k is the solver-chosen pair (idx[k], len[k]) constrained only by the documented contract '
                               '(idx < number of terms or the default-constructed failure value; 1 <= len <= remaining input)']
    cp.run_parse_property('C18', tier, seed, sel, A, '', ['grammars outside the families', 'inputs longer than LEN'], ass, ws=0, nl=0, validate_cf=False, wit_every=2, finish=False, R=R, defer=cases, variant='anslex')
    cp.run_parse_property('C18', tier, seed, sel2, A, '', [], ass, ws=1, nl=1, validate_cf=False, wit_every=2, finish=False, R=R, defer=cases, variant='anslex', tag='w')
    return cp.run_deferred(R, tier, cases,
        'one query per (grammar over custom terms, exact input length): input bytes AND the custom lexer\'s answers are solver variables; the parser must ask the lexer exactly once per needed term at the '
        'reference offsets (hash of offsets + count), consume exactly the returned length, pass that slice to the term functor, treat the default result as Unexpected character, and otherwise accept / evaluate / '
        'report positions exactly as the reference interpreter fed the same answers')
