"""C18 - a custom lexer drives the parser under the same contract as the generated one."""
import families, report, vlib, kernel, common_parse as cp

RT_CPP = r'''#include "hv.h"
using namespace ctpg;
// the only way a custom lexer can report a match: recognized_term(index, length).  Both must arrive unchanged, for every size_t length.
extern "C" __attribute__((noinline)) void k_rt(uint32_t idx, uint64_t len, uint64_t* out)
{
    recognized_term rt((size16_t)idx, (size_t)len);
    out[0] = rt.term_idx; out[1] = rt.len;
    recognized_term none;
    out[2] = none.term_idx; out[3] = none.len;
}
'''
CT_CPP = r'''#include "hv.h"
using namespace ctpg;
// what a custom term carries into the grammar: its name, precedence and associativity must arrive exactly as for char/string/regex terms
extern "C" __attribute__((noinline)) void k_ct(int32_t prec, uint32_t assoc, int32_t* out)
{
    associativity a = assoc == 0 ? associativity::no_assoc : assoc == 1 ? associativity::ltor : associativity::rtol;
    custom_term t("op", [](std::string_view sv){ return (unsigned)sv.size(); }, prec, a);
    char_term c('-', prec, a);
    out[0] = t.get_precedence(); out[1] = (int32_t)t.get_associativity();
    out[2] = c.get_precedence(); out[3] = (int32_t)c.get_associativity();
    custom_term d("op", [](std::string_view sv){ return (unsigned)sv.size(); });
    out[4] = d.get_precedence(); out[5] = (int32_t)d.get_associativity();
    out[6] = (int32_t)associativity::no_assoc; out[7] = (int32_t)associativity::ltor; out[8] = (int32_t)associativity::rtol;
    out[9] = t.get_name()[0] == 'o' && t.get_name()[1] == 'p' && t.get_name()[2] == 0;
}
'''
def kernels(wd):
    return [kernel.Kernel(wd, 'custom_term', CT_CPP, protos=[('void', 'k_ct', ['int32_t', 'uint32_t', 'int32_t*'])],
        inputs=[('PREC', 'int32_t', 1), ('ASSOC', 'uint32_t', 1)], outputs=[('OUT', 'int32_t', 10)], assume='ASSOC <= 2',
        call_c='  K(k_ct)(PREC, ASSOC, OUT);',
        oracle_c='''  CHECK(OUT[0] == PREC, "a custom term keeps the precedence it was declared with");
  CHECK(OUT[1] == OUT[6 + ASSOC], "a custom term keeps the associativity it was declared with");
  CHECK(OUT[0] == OUT[2] && OUT[1] == OUT[3], "custom terms and generated-lexer terms carry the same precedence / associativity into conflict resolution");
  CHECK(OUT[4] == 0 && OUT[5] == OUT[6], "defaults: precedence 0, no associativity");
  CHECK(OUT[9] == 1, "the custom term's name is the one given");''',
        witness='PREC == -7 && ASSOC == 1 && OUT[1] == OUT[7]', meta={'module': 'c18'}),
      kernel.Kernel(wd, 'recognized_term', RT_CPP, protos=[('void', 'k_rt', ['uint32_t', 'uint64_t', 'uint64_t*'])],
        inputs=[('IDX', 'uint32_t', 1), ('LENV', 'uint64_t', 1)], outputs=[('OUT', 'uint64_t', 4)], assume='IDX < 65535',
        call_c='  K(k_rt)(IDX, LENV, OUT);',
        oracle_c='''  CHECK(OUT[0] == IDX, "the term index returned by a custom lexer reaches the parser unchanged");
  CHECK(OUT[1] == LENV, "the length returned by a custom lexer reaches the parser unchanged, for every size_t value (tokens longer than 65535 characters included)");
  CHECK(OUT[2] == 65535, "the default-constructed result is the failure value");''',
        witness='LENV > 70000 && OUT[1] == LENV', meta={'module': 'c18'})]
def replay(r, wd):
    for k in kernels(wd):
        if k.name == r['kernel']: k.unit.build(); k.build_native(); return k.run_native('real', r['inputs'])

def run(tier, seed):
    d = {g.name: g for g in families.g_dir() + families.g_err()}
    R = report.Run('C18', tier, seed); cases = []
    kernel.run_kernels(R, kernels(vlib.workdir('C18')))
    if tier == 'quick': sel = [(d['etf'], [2]), (d['lrec'], [2]), (d['mutual'], [2])]; sel2 = [(d['er1'], [2]), (d['rrec'], [2])]
    else: sel = [(d[n], [1, 2, 3] if n in ('etf', 'lrec') else [1, 2]) for n in ('etf', 'lrec', 'rrece', 'nullrun', 'mutual', 'd1', 'lalr')]; sel2 = [(d[n], [2]) for n in ('er1', 'er2', 'd1', 'trail')]
    A = ['accept', 'value', 'messages', 'positions', 'lexcalls']
    ass = cp.STD_ASSUME[1:] + ['the lexer is a stub: the answer to a request at offset k is the solver-chosen pair (idx[k], len[k]) constrained only by the documented contract '
                               '(idx < number of terms or the default-constructed failure value; 1 <= len <= remaining input)']
    cp.run_parse_property('C18', tier, seed, sel, A, '', ['grammars outside the families', 'inputs longer than LEN'], ass, ws=0, nl=0, validate_cf=False, wit_every=2, finish=False, R=R, defer=cases, variant='anslex')
    cp.run_parse_property('C18', tier, seed, sel2, A, '', [], ass, ws=1, nl=1, validate_cf=False, wit_every=2, finish=False, R=R, defer=cases, variant='anslex', tag='w')
    return cp.run_deferred(R, tier, cases,
        'one query per (grammar over custom terms, exact input length): input bytes AND the custom lexer\'s answers are solver variables; the parser must ask the lexer exactly once per needed term at the '
        'reference offsets (hash of offsets + count), consume exactly the returned length, pass that slice to the term functor, treat the default result as Unexpected character, and otherwise accept / evaluate / '
        'report positions exactly as the reference interpreter fed the same answers')
