"""C02 - the parse result is the bottom-up evaluation of the derivation tree."""
import families, common_parse as cp
def run(tier, seed):
    d = {g.name: g for g in families.g_dir()}
    if tier == 'quick':
        sel = [(d[n], [3]) for n in ('e123', 'etf', 'rrece', 'chain', 'nullrun', 'mutual')] + [(d['lrec'], [4])] + [(g, [3]) for g in families.g_rand(seed + 100, 2)]
    else:
        sel = [(g, [l for l in (1, 2, 3, 4, 5) if (g.nt + 1) ** l <= 4000]) for g in d.values()] + [(g, [2, 3, 4]) for g in families.g_rand(seed + 100, 12)]
    return cp.run_parse_property('C02', tier, seed, sel, ['accept', 'value', 'positions'],
        'one query per (grammar unit, exact input length): for every byte string the returned value, the sequence of rule functor calls, and the term values/positions handed to functors '
        'equal the reference bottom-up evaluation (rule value = non-commutative polynomial hash of the children, so order and identity of children are observable)',
        cp.STD_OUTSIDE + ['value types other than unsigned / term_value<unsigned>', 'discards by error recovery (C08)'], cp.STD_ASSUME)
