"""C02 - the parse result is the bottom-up evaluation of the derivation tree."""
import families, report, vlib, kernel, c02_step, buf_kernel, common_parse as cp

def run(tier, seed):
    R = report.Run('C02', tier, seed); cases = []
    wd = vlib.workdir('C02')
    d = {g.name: g for g in families.g_dir()}
    if tier == 'quick':
        sel = [(d[n], [3]) for n in ('e123', 'tconv', 'etf', 'rrece', 'interl', 'nullrun', 'mutual')] + [(d['lrec'], [4])] + [(g, [3]) for g in families.g_rand(seed + 100, 2)]
    else:
        sel = [(g, [l for l in (1, 2, 3, 4, 5) if (g.nt + 1) ** l <= 4000]) for g in d.values() if g.name not in families.KNOWN_DEFECT_UNITS | families.SPECIAL_VARIANT_UNITS] + [(g, [2, 3, 4]) for g in families.g_rand(seed + 100, 12)]
    # (1) inductive step: one reduce of the real driver from an ARBITRARY stack height (covers inputs of any length)
    kernel.run_kernels(R, c02_step.kernels(wd, ('etf', 'e123') if tier == 'quick' else ('etf', 'e123', 'nullrun', 'interl', 'chain')))
    # (1b) the lexeme a term functor is applied to: get_view of the buffer kinds (the string_view_buffer parse path itself is out of reach: std::vector-backed stacks)
    kernel.run_kernels(R, buf_kernel.kernels(wd))
    # (2) exact-length queries: whole parses against the reference evaluation
    cp.run_parse_property('C02', tier, seed, sel, ['accept', 'value', 'positions'], '',
        cp.STD_OUTSIDE + ['value types other than unsigned / term_value<unsigned>', 'discards by error recovery (C08)'],
        cp.STD_ASSUME + ['step kernel: the semantic values of the handle range over 0..15 (arbitrary 32-bit values make the equivalence of two multiplier chains SAT-hard); the stacks are a harness class with a '
                         'numeric height < 2^40 and an 8-slot window around the top, so the cvector / std::vector operations themselves are covered by the exact-length queries only'],
        finish=False, R=R, defer=cases)
    # (3) rules WITHOUT functor with several right-side symbols: aggregate value type constructed from the right-side values in order
    cp.run_parse_property('C02', tier, seed, [(d['dflt'], [3] if tier == 'quick' else [2, 3, 4])], ['accept', 'value'], '', [], ['aggregate value type for functor-less rules: one argument = that value, several = ordered fold'],
                          finish=False, R=R, defer=cases, variant='agg', tag='g')
    return cp.run_deferred(R, tier, cases,
        'step kernel: one reduce step of the real driver from an arbitrary stack height < 2^40 - the functor receives exactly the handle (top n slots, right-side order), n entries are popped, the goto state is pushed; '
        'exact-length queries: one per (grammar unit, input length): for every byte string the returned value, the sequence of rule functor calls, and the term values / positions handed to functors equal the '
        'reference bottom-up evaluation (rule value = non-commutative polynomial hash of the children, so order and identity of children are observable)')
