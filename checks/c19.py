"""C19 - helper functors pick and forward exactly the documented positions."""
import vlib, report, kernel

HDR = r'''#include "hv.h"
using namespace ctpg; using namespace ctpg::ftors;
namespace fx {
unsigned poison_hits, copies, moves;
// every argument that must not be read is a poison object: any conversion, copy or move of it is counted; they are passed as lvalues (odd positions) and xvalues (even positions)
template<typename T> struct is_ign : std::false_type {};
template<std::size_t I> struct is_ign<ctpg::ftors::ignore<I>> : std::true_type {};
struct poison {
    poison() = default;
    poison(const poison&) { ++poison_hits; }      // taking a skipped argument by value copies it (lvalue) ...
    poison(poison&&) { ++poison_hits; }           // ... or moves from it (rvalue): both read the argument
    // (no conversion to the library's own placeholder type: taking a skipped argument must go through ignore's constructor, whose parameter passing is what is observed)
    template<typename T, typename = std::enable_if_t<!is_ign<T>::value>> operator T() const { ++poison_hits; return T{}; }
};
static poison pz[10];
// the selected argument: a tagged value.  copy-constructing it is counted; cat: 0 copyable lvalue, 1 copyable rvalue, 2 move-only rvalue
struct tagged {
    unsigned v = 0;
    tagged() = default; explicit tagged(unsigned v) : v(v) {}
    tagged(const tagged& o) : v(o.v) { ++copies; }
    tagged(tagged&& o) : v(o.v) { ++moves; o.v = 0xdeadu; }
    tagged& operator=(const tagged& o) { v = o.v; ++copies; return *this; }
    tagged& operator=(tagged&& o) { v = o.v; ++moves; o.v = 0xdeadu; return *this; }
};
struct monly {
    unsigned v = 0;
    monly() = default; explicit monly(unsigned v) : v(v) {}
    monly(const monly&) = delete; monly& operator=(const monly&) = delete;
    monly(monly&& o) : v(o.v) { ++moves; o.v = 0xdeadu; }
    monly& operator=(monly&& o) { v = o.v; ++moves; o.v = 0xdeadu; return *this; }
};
struct built { unsigned v; built() : v(0) {} built(const tagged& t) : v(t.v + 1000u) {} built(tagged&& t) : v(t.v + 2000u) {} built(monly&& t) : v(t.v + 3000u) {} };
// fixed-capacity container with counted copies: a copied container is a violation of "without copying it"
template<typename T> struct mini {
    T d[4]; unsigned n = 0; unsigned id = 0;
    mini() = default;
    mini(const mini& o) : n(o.n), id(o.id) { ++copies; for (unsigned i = 0; i < 4; ++i) d[i].v = o.d[i].v; }
    mini(mini&& o) : n(o.n), id(o.id) { ++moves; for (unsigned i = 0; i < 4; ++i) d[i].v = o.d[i].v; }
    void push_back(const T& x) { if (n < 4) d[n].v = x.v; ++n; }
    void emplace_back(T&& x) { if (n < 4) d[n].v = x.v; ++n; x.v = 0xdeadu; }
};
}
using namespace fx;
'''

def gen():
    """returns (cpp, kinds) : kinds[i] = (kind, descr).  One extern "C" wrapper per instantiation, dispatched by a switch so that the instantiation index is a solver variable as well."""
    fns = []; kinds = []
    def args(n, sel):
        """argument list of arity n with named expressions at 1-based positions in sel (dict pos -> expr), poison elsewhere"""
        return ', '.join(sel.get(i, ('pz[%d]' % i) if i % 2 else ('std::move(pz[%d])' % i)) for i in range(1, n + 1))
    # _eN for every arity, three value categories
    for N in range(1, 10):
        for k in range(N, 10):
            for cat in range(3):
                i = len(fns)
                if cat == 0: body = 'tagged t(v); decltype(auto) r = element<%d>{}(%s); out[0] = r.v; out[1] = (&r == &t);' % (N, args(k, {N: 't'}))
                elif cat == 1: body = 'tagged t(v); decltype(auto) r = element<%d>{}(%s); out[0] = r.v; out[1] = (&r == &t);' % (N, args(k, {N: 'std::move(t)'}))
                else: body = 'monly t(v); decltype(auto) r = element<%d>{}(%s); out[0] = r.v; out[1] = (&r == &t);' % (N, args(k, {N: 'std::move(t)'}))
                fns.append(body); kinds.append((0, '_e%d arity %d cat %d' % (N, k, cat)))
    # construct<T, I>
    for I in range(1, 10):
        for k in (I, 9):
            for cat in range(3):
                src = {0: 'tagged t(v);', 1: 'tagged t(v);', 2: 'monly t(v);'}[cat]; a = {0: 't', 1: 'std::move(t)', 2: 'std::move(t)'}[cat]
                fns.append('%s built r = construct<built, %d>{}(%s); out[0] = r.v - %du; out[1] = 1;' % (src, I, args(k, {I: a}), (cat + 1) * 1000))
                kinds.append((1, 'construct<T,%d> arity %d cat %d' % (I, k, cat)))
    # push_back<C, A> / emplace_back<C, A> for all ordered position pairs
    for C in range(1, 10):
        for A in range(1, 10):
            if C == A: continue
            k = max(C, A)
            for kk in sorted(set([k, 9])):
                fns.append('mini<tagged> c; c.n = 1; c.d[0].v = w; c.id = 77; tagged t(v); decltype(auto) r = push_back<%d, %d>{}(%s); '
                           'out[0] = r.n >= 2 ? r.d[1].v : 0xffffu; out[1] = (&r == &c) || (r.id == 77); out[4] = r.n; out[5] = r.d[0].v; out[6] = t.v;' % (C, A, args(kk, {C: 'c', A: 't'})))
                kinds.append((2, 'push_back<%d,%d> arity %d' % (C, A, kk)))
                fns.append('mini<monly> c; c.n = 1; c.d[0].v = w; c.id = 77; monly t(v); decltype(auto) r = emplace_back<%d, %d>{}(%s); '
                           'out[0] = r.n >= 2 ? r.d[1].v : 0xffffu; out[1] = (&r == &c) || (r.id == 77); out[4] = r.n; out[5] = r.d[0].v; out[6] = t.v;' % (C, A, args(kk, {C: 'c', A: 'std::move(t)'})))
                kinds.append((3, 'emplace_back<%d,%d> arity %d' % (C, A, kk)))
    # val(v) and create<T> with every arity of poison arguments
    for k in range(0, 10):
        fns.append('auto f = val(unsigned(v)); auto r = f(%s); out[0] = r; out[1] = 1;' % args(k, {})); kinds.append((4, 'val arity %d' % k))
        fns.append('auto r = create<built>{}(%s); out[0] = v + r.v; out[1] = 1;' % args(k, {})); kinds.append((5, 'create arity %d' % k))
    o = [HDR]
    for i, b in enumerate(fns):
        o.append('static void f%d(unsigned v, unsigned w, uint32_t* out) { %s }' % (i, b))
    o.append('extern "C" __attribute__((noinline)) void k_ftor(uint32_t which, uint32_t v, uint32_t w, uint32_t* out) {')
    o.append('  poison_hits = copies = moves = 0; for (int i = 0; i < 8; i++) out[i] = 0;')
    o.append('  switch (which) {')
    for i in range(len(fns)): o.append('    case %d: f%d(v, w, out); break;' % (i, i))
    o.append('    default: out[7] = 1; }')
    o.append('  out[2] = poison_hits; out[3] = copies;')
    o.append('}')
    return '\n'.join(o) + '\n', kinds

def kernels(wd):
    cpp, kinds = gen()
    n = len(kinds)
    ref = 'static const uint8_t KIND[%d] = {%s};\n' % (n, ','.join(str(k) for k, _ in kinds))
    return [kernel.Kernel(wd, 'ftors', cpp,
        protos=[('void', 'k_ftor', ['uint32_t', 'uint32_t', 'uint32_t', 'uint32_t*'])],
        inputs=[('WHICH', 'uint32_t', 1), ('V', 'uint32_t', 1), ('W', 'uint32_t', 1)], outputs=[('OUT', 'uint32_t', 8)],
        assume='WHICH < %d && V < 0x10000u && W < 0x10000u && V != 0xdeadu' % n, ref_c=ref,
        call_c='  K(k_ftor)(WHICH, V, W, OUT);',
        oracle_c='''  unsigned k = KIND[WHICH];
  CHECK(exc_pending == 0 && OUT[7] == 0, "instantiation exists");
  CHECK(OUT[2] == 0, "no helper reads any argument other than the documented position(s)");
  CHECK(OUT[3] == 0, "no helper copies the selected value or the container");
  if (k == 0) { CHECK(OUT[0] == V, "_eN returns the N-th right-side value unchanged"); CHECK(OUT[1] == 1 || OUT[3] == 0, "_eN forwards the very object or moves it; it never copies"); }
  if (k == 1) CHECK(OUT[0] == V, "construct<T,I> builds T from the I-th value (forwarded with its value category)");
  if (k == 2 || k == 3) {
    CHECK(OUT[1] == 1, "push_back / emplace_back return the C-th argument (the very object, or a container moved from it; copies are counted separately)");
    CHECK(OUT[4] == 2 && OUT[0] == V, "the A-th value is appended to the container");
    CHECK(OUT[5] == W, "existing container elements are kept");
    if (k == 2) CHECK(OUT[6] == V, "push_back leaves its element argument intact (const reference)");
  }
  if (k == 4) CHECK(OUT[0] == V, "val(v) returns v regardless of the arguments");
  if (k == 5) CHECK(OUT[0] == V, "create<T> returns a default-constructed T regardless of the arguments");''',
        witness='KIND[WHICH] == 3 && OUT[0] == 7', default_unwind=10, bounds={'k_ftor': 10}, meta={'module': 'c19', 'instantiations': n}, timeout=900, mem_gb=10)], kinds

def replay(r, wd):
    ks, _ = kernels(wd)
    k = ks[0]; k.unit.build(); k.build_native(); return k.run_native('real', r['inputs'])

def run(tier, seed):
    R = report.Run('C19', tier, seed)
    wd = vlib.workdir('C19')
    ks, kinds = kernels(wd)
    kernel.run_kernels(R, ks)
    R.extra['instantiations'] = len(kinds); R.extra['exhaustive_over_instantiations'] = True
    R.samples = [{'instantiation': d} for _, d in kinds[::max(1, len(kinds) // 12)]]
    R.outside = ['value categories beyond copyable lvalue / copyable rvalue / move-only rvalue', 'containers other than the counted fixed-capacity mini container (std::vector would need the heap model)']
    R.assumptions = ['the instantiation index, the selected value and the pre-existing container element are solver variables; every other argument is a poison object whose conversion is counted']
    return R.finish('one query: the instantiation index (all %d helper instantiations: _e1.._e9 x arity x category, construct<T,I>, push_back / emplace_back for all ordered position pairs, val, create) '
                    'and the argument values are solver variables; copies of values and containers are counted by the value types' % len(kinds))
