"""Buffer kernel shared by C02 / C04 / C07: the lexeme a buffer kind hands out for an iterator range is exactly that slice of the caller's text."""
import kernel

CPP = r'''#include "hv.h"
using namespace ctpg; using namespace ctpg::buffers;
// get_view(begin()+i, begin()+j) of every buffer kind that can be encoded (std::string's heap representation is out of reach): offset and length of the slice
extern "C" __attribute__((noinline)) void k_view(const uint8_t* text, uint32_t n, uint32_t i, uint32_t j, uint32_t* out)
{
    char a[9];
    for (unsigned k = 0; k < 9; ++k) a[k] = k < 8 ? (char)text[k] : 0;
    {
        cstring_buffer<9> b(a);
        auto v = b.get_view(b.begin() + i, b.begin() + j);
        out[0] = (uint32_t)(v.data() - b.begin().ptr); out[1] = (uint32_t)v.size();
        out[2] = v.size() ? (uint8_t)v[0] : 0x100u; out[3] = (uint32_t)(b.end().ptr - b.begin().ptr);
    }
    {
        string_view_buffer b(std::string_view(a, n));
        auto v = b.get_view(b.begin() + i, b.begin() + j);
        out[4] = (uint32_t)(v.data() - a); out[5] = (uint32_t)v.size();
        out[6] = v.size() ? (uint8_t)v[0] : 0x100u; out[7] = (uint32_t)(b.end() - b.begin());
    }
}
'''

def kernels(wd):
    return [kernel.Kernel(wd, 'buffer_view', CPP, protos=[('void', 'k_view', ['const uint8_t*', 'uint32_t', 'uint32_t', 'uint32_t', 'uint32_t*'])],
        inputs=[('TEXT', 'uint8_t', 8), ('N', 'uint32_t', 1), ('I', 'uint32_t', 1), ('J', 'uint32_t', 1)], outputs=[('OUT', 'uint32_t', 8)],
        assume='N <= 8 && I <= J && J <= N',
        call_c='  K(k_view)(TEXT, N, I, J, OUT);',
        oracle_c='''  CHECK(exc_pending == 0, "get_view does not throw for a range inside the buffer");
  CHECK(OUT[0] == I && OUT[1] == J - I, "cstring_buffer: the lexeme is exactly the slice [i, j) of the caller's text");
  CHECK(OUT[4] == I && OUT[5] == J - I, "string_view_buffer: the lexeme is exactly the slice [i, j) of the caller's text");
  CHECK(OUT[2] == (J > I ? TEXT[I] : 0x100u) && OUT[6] == OUT[2], "both buffer kinds hand out the same characters");
  CHECK(OUT[3] == 8 && OUT[7] == N, "begin() / end() span the caller's text");''',
        witness='I == 2 && J == 5 && N == 7 && OUT[5] == 3', default_unwind=12, bounds={'k_view': 12}, meta={'module': 'buf_kernel'}, timeout=600, mem_gb=8)]

def replay(r, wd):
    for k in kernels(wd):
        if k.name == r['kernel']: k.unit.build(); k.build_native(); return k.run_native('real', r['inputs'])
