"""C13 - context_parse hands the caller's context to exactly the contextual functors."""
import copy
import families, report, common_parse as cp
def mixed(g):
    """every other hash rule becomes a contextual (>>=) functor"""
    g2 = copy.deepcopy(g); k = 0
    for r in g2.rules:
        if r['f'] == 'hash':
            if k % 2 == 0: r['f'] = 'ctxhash'
            k += 1
    g2.name = g.name + 'cx'
    return g2
def mixed_prec(g, prefix=False):
    """rules with an explicit [n] become contextual; the emitter then writes them as (rule >>= f)[n] - precedence attached after the functor - or, with prefix, as rule[n] >>= f"""
    g2 = copy.deepcopy(g)
    for r in g2.rules:
        if r['f'] == 'hash' and r['prec'] != 0: r['f'] = 'ctxhash'
    g2.name = g.name + ('pp' if prefix else 'pc'); g2.ctxprec_prefix = prefix
    return g2
def run(tier, seed):
    d = {g.name: g for g in families.g_dir()}
    R = report.Run('C13', tier, seed); cases = []
    names = ['etf', 'lrece', 'mutual'] if tier == 'quick' else ['etf', 'lrece', 'rrece', 'mutual', 'nullrun']
    Ls = [3] if tier == 'quick' else [2, 3]
    for kind, asserts in ((0, ['accept', 'value', 'ctx_rw']), (1, ['accept', 'value', 'ctx_ro']), (2, ['accept', 'value', 'ctx_ro']), (3, ['accept', 'value', 'ctx_rw'])):
        sel = [(mixed(d[n]), Ls) for n in (names if kind in (0, 3) or tier != 'quick' else names[:1])]
        cp.run_parse_property('C13', tier, seed, sel, asserts, '', cp.STD_OUTSIDE + ['contexts with non-trivial move semantics beyond the 4 categories'], cp.STD_ASSUME,
                              validate_cf=False, wit_every=3, finish=False, R=R, defer=cases, variant='ctx', ctxkind=kind, tag='k%d' % kind)
    # precedence attached after a contextual functor, (rule >>= f)[n], and before it, rule[n] >>= f: the explicit value must survive both spellings
    PR = {g.name: g for g in families.g_prec()}
    cp.run_parse_property('C13', tier, seed, [(mixed_prec(PR['p_neg']), [3] if tier == 'quick' else [3, 4]), (mixed_prec(PR['p_neg'], prefix=True), [4] if tier == 'quick' else [3, 4]), (mixed_prec(PR['p_expl']), [3]), (mixed_prec(PR['p_expl'], prefix=True), [3])][:2 if tier == 'quick' else 4], ['accept', 'value', 'ctx_rw'], '', [], [],
                          validate_cf=False, wit_every=3, finish=False, R=R, defer=cases, variant='ctx', ctxkind=0, tag='kp')
    # grammars that ignore the context: parse(x) == context_parse(c, x)
    sel = [(d[n], [2] if tier == 'quick' else Ls) for n in names[:2]]
    cp.run_parse_property('C13', tier, seed, sel, ['accept', 'value', 'dual'], '', [], [], validate_cf=False, wit_every=3, finish=False, R=R, defer=cases, variant='ctx', ctxkind=4, tag='k4')
    return cp.run_deferred(R, tier, cases,
        'one query per (grammar mixing >= and >>= functors, context category in {T&, const T&, T by value, move-only T&&}, exact input length): every >>= functor call checks the identity (address and tag) '
        'of the context it receives against the object the caller supplied and bumps a counter; afterwards the caller sees exactly one increment per >>= reduction of the reference (in reduction order, via the value hash); '
        'a fifth instantiation parses the same bytes with parse and context_parse on a context-ignoring grammar')
