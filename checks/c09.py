"""C09 - failures are reported once, at the right place, and never silently."""
import families, common_parse as cp
def run(tier, seed):
    d = {g.name: g for g in families.g_dir()}
    if tier == 'quick':
        sel = [(d[n], [3]) for n in ('lalr', 'etf', 'lrece', 'pal', 'trail', 'mutleft', 'nulfirst', 'lrnul')] + [(d['rrec'], [4])] + [(g, [3]) for g in families.g_rand(seed + 200, 2)]
    else:
        sel = [(g, [l for l in (1, 2, 3, 4, 5) if (g.nt + 1) ** l <= 4000]) for g in d.values() if g.name not in families.KNOWN_DEFECT_UNITS | families.SPECIAL_VARIANT_UNITS] + [(g, [2, 3, 4]) for g in families.g_rand(seed + 200, 12)]
    rc = cp.run_parse_property('C09', tier, seed, sel, ['accept', 'messages', 'silent'],
        'one query per (grammar unit, exact input length), verbose off: empty optional iff not in the language; exactly the reference message list '
        '(kind, line, column, offending term or byte); canonical LR(1) reference => the offending term is the first one that extends no viable prefix; success writes nothing',
        cp.STD_OUTSIDE + ['text formatting by std::ostream (the pieces streamed are observed)'], cp.STD_ASSUME + ['skip_whitespace on, skip_newline on (positions over blanks are exercised)'], ws=1, nl=1)
    return rc
