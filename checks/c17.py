"""C17 - malformed patterns and grammars are rejected at construction."""
import itertools
import vlib, report, kernel, rx

# byte classes of the documented regex syntax: validity of a pattern depends only on the class string
CLASSES = [('*', b'*'), ('+', b'+'), ('?', b'?'), ('|', b'|'), ('(', b'('), (')', b')'), ('{', b'{'), ('}', b'}'), ('[', b'['), (']', b']'), ('^', b'^'), ('-', b'-'), ('\\', b'\\'), ('.', b'.'),
           ('x', b'x'), ('digit', b'0123456789'), ('hex', b'abcdefABCDEF'), ('print', None), ('nonprint', None)]
def class_of(c):
    for i, (n, bs) in enumerate(CLASSES):
        if bs is not None and c in bs: return i
    return 17 if 0x20 <= c <= 0x7e else 18
REP = [bs[0] if bs else (ord('q') if n == 'print' else 0x01) for n, bs in CLASSES]

def valid_table(L):
    nc = len(CLASSES); tab = bytearray(nc ** L)
    for idx, cs in enumerate(itertools.product(range(nc), repeat=L)):
        tab[idx] = 1 if rx.valid(bytes(REP[c] for c in cs)) else 0
    return tab

CPP = r'''#include "hv.h"
using namespace ctpg; using namespace ctpg::buffers;
// exactly what analyze_dfa_size / regex::expr / regex_term do with a pattern: the library's own regex lexer + LR grammar, dfa_size_analyzer as context
extern "C" __attribute__((noinline)) void k_rxvalid(const uint8_t* in, uint32_t* out)
{
    char b[LEN + 1]; for (int i = 0; i < LEN; i++) b[i] = (char)in[i]; b[LEN] = 0;
    utils::no_stream s; regex::dfa_size_analyzer a;
    auto res = regex::regex_parser::regex_parser_object.context_parse(a, parse_options{}.set_skip_whitespace(false), cstring_buffer<LEN + 1>(b), s);
    out[0] = res.has_value() ? 1u : 0u; out[1] = res.has_value() ? res.value().n : 0u;
}
'''
CPP2 = r'''#include "hv.h"
using namespace ctpg;
// symbol lookup used for every symbol of every rule: index of the first equal name, or the documented exception - never a silent 'uninitialized'
extern "C" __attribute__((noinline)) uint32_t k_find(const uint8_t* names, const uint8_t* needle)
{
    char n0[4], n1[4], n2[4], nd[4];
    for (int i = 0; i < 3; i++) { n0[i] = (char)names[i]; n1[i] = (char)names[3 + i]; n2[i] = (char)names[6 + i]; nd[i] = (char)needle[i]; }
    n0[3] = n1[3] = n2[3] = nd[3] = 0;
    str_table<3> t = { n0, n1, n2 };
    return (uint32_t)utils::find_str(t, nd);
}
extern "C" __attribute__((noinline)) uint32_t k_nterm(uint32_t c)
{
    char nm[2] = { (char)c, 0 };
    nterm<int> n(nm);
    return n.get_name()[0] == (char)c ? 1u : 0u;
}
'''

LEXCPP = r'''#include "hv.h"
using namespace ctpg; using namespace ctpg::buffers;
// the library's own pattern lexer on an arbitrary NUL-terminated byte string: one token from the start
extern "C" __attribute__((noinline)) void k_rxlex(const uint8_t* in, uint32_t* out)
{
    char b[LEN + 1]; for (int i = 0; i < LEN; i++) b[i] = (char)in[i]; b[LEN] = 0;
    cstring_buffer<LEN + 1> buf(b); utils::no_stream s; regex::regex_lexer lx;
    auto rt = lx.match(match_options{}, source_point{}, buf.begin(), buf.end(), s);
    out[0] = rt.term_idx; out[1] = (uint32_t)rt.len;
}
'''
LEXREF = r'''
static int pr(uint8_t c) { return c >= 0x20 && c <= 0x7e; }
static int hx(uint8_t c) { return (c >= '0' && c <= '9') || (c >= 'a' && c <= 'f') || (c >= 'A' && c <= 'F'); }
/* README: escaped char = backslash + printable char; hex escape = \\x + up to two hex digits.  returns length or 0 */
static unsigned esc(const uint8_t* in, unsigned n, unsigned i) {
  if (i + 1 >= n) return 0;
  uint8_t c = in[i + 1];
  if (c == 'x') { if (i + 2 < n && hx(in[i + 2])) { if (i + 3 < n && hx(in[i + 3])) return 4; return 3; } return 2; }
  return pr(c) ? 2 : 0;
}
static unsigned setchar(const uint8_t* in, unsigned n, unsigned j) {   /* one set character: escaped or printable; length or 0 */
  if (j >= n) return 0;
  if (in[j] == '\\') return esc(in, n, j);
  return pr(in[j]) ? 1 : 0;
}
/* first token of a pattern: term 0 digit, 1 primary (char / escape / set / any), 2..9 the operators * + ? | ( ) { } ; returns 0 if no token */
static int ref_rxlex(const uint8_t* in, unsigned n, unsigned* term, unsigned* len) {
  if (n == 0) return 0;
  uint8_t c = in[0];
  const char* sp = "*+?|(){}";
  for (unsigned k = 0; k < 8; k++) if (c == (uint8_t)sp[k]) { *term = 2 + k; *len = 1; return 1; }
  if (c >= '0' && c <= '9') { *term = 0; *len = 1; return 1; }
  if (c == '\\') { unsigned l = esc(in, n, 0); if (!l) return 0; *term = 1; *len = l; return 1; }
  if (c == '[') {
    unsigned j = 1;
    if (j < n && in[j] == '^') j++;
    for (unsigned it = 0; it <= LEN; it++) {
      if (j >= n) return 0;                                   /* unterminated set */
      if (in[j] == ']') { *term = 1; *len = j + 1; return 1; }
      unsigned l = setchar(in, n, j); if (!l) return 0; j += l;
      if (j < n && in[j] == '-') { j++; if (j >= n || in[j] == ']') return 0; l = setchar(in, n, j); if (!l) return 0; j += l; }
    }
    return 0;
  }
  if (pr(c)) { *term = 1; *len = 1; return 1; }
  return 0;                                                   /* raw non-printable byte */
}
'''

def rx_grammar():
    import lr1
    return lr1.Grammar('rxg', ['expr', 'alt', 'concat', 'q_expr', 'primary', 'number'], ['d', 'p', '*', '+', '?', '|', '(', ')', '{', '}'], 'expr',
        [('number', ['d'], {'f': 'default'}), ('number', ['number', 'd']), ('primary', ['d']), ('primary', ['p']), ('primary', ['(', 'expr', ')'], {'f': 'e2'}),
         ('q_expr', ['primary'], {'f': 'default'}), ('q_expr', ['primary', '*']), ('q_expr', ['primary', '+']), ('q_expr', ['primary', '?']), ('q_expr', ['primary', '{', 'number', '}']),
         ('concat', ['q_expr'], {'f': 'default'}), ('concat', ['concat', 'q_expr']), ('alt', ['concat'], {'f': 'default'}), ('alt', ['alt', '|', 'alt']), ('expr', ['alt'], {'f': 'default'})],
        note='the library\'s own pattern grammar (regex_parser_object), re-stated over abstract terms')

def kernels(wd, tier='quick'):
    ks = []
    for L in ([1, 2, 3, 4, 5, 6] if tier == 'quick' else [1, 2, 3, 4, 5, 6, 7, 8]):
        ks.append(kernel.Kernel(wd, 'rxlex_L%d' % L, LEXCPP,
            protos=[('void', 'k_rxlex', ['const uint8_t*', 'uint32_t*'])], inputs=[('IN', 'uint8_t', max(L, 2))], outputs=[('OUT', 'uint32_t', 2)], ref_c=LEXREF, defines=['LEN=%d' % L],
            call_c='  K(k_rxlex)(IN, OUT);',
            oracle_c='''  unsigned t = 0, l = 0; int ok = ref_rxlex(IN, LEN, &t, &l);
  CHECK(exc_pending == 0, "the pattern lexer must not throw");
  CHECK((OUT[0] != 65535u) == (ok != 0), "a pattern token is recognised iff the documented syntax has one here (unterminated set, dangling escape or range, raw non-printable byte are refused)");
  if (ok && OUT[0] != 65535u) { CHECK(OUT[0] == t, "token kind as documented"); CHECK(OUT[1] == l, "token extent as documented: a malformed or unterminated construct is never scanned past its end"); }''',
            witness="OUT[0] == 1 && OUT[1] == LEN && IN[0] == '['" if L >= 3 else 'OUT[0] == 1', default_unwind=L + 3,
            bounds={'match_range': L + 2, 'match': L + 2, 'k_rxlex': L + 2}, fn_bounds={'ref_rxlex': L + 10, 'esc': 4, 'setchar': 4},
            mode='safety', meta={'module': 'c17', 'L': L}, timeout=900, mem_gb=10))
    for L in ([] if tier == 'quick' else [1, 2]):
        tab = valid_table(L); nc = len(CLASSES)
        cls = [class_of(c) for c in range(256)]
        ref = 'static const uint8_t CLS[256] = {%s};\nstatic const uint8_t VALID[%d] = {%s};\n' % (','.join(map(str, cls)), len(tab), ','.join(map(str, tab)))
        idx = '0'
        for i in range(L): idx = '(%s) * %d + CLS[IN[%d]]' % (idx, nc, i)
        ks.append(kernel.Kernel(wd, 'rxvalid_L%d' % L, CPP,
            protos=[('void', 'k_rxvalid', ['const uint8_t*', 'uint32_t*'])], inputs=[('IN', 'uint8_t', max(L, 2))], outputs=[('OUT', 'uint32_t', 2)], ref_c=ref, defines=['LEN=%d' % L],
            call_c='  K(k_rxvalid)(IN, OUT);',
            oracle_c='''  CHECK(exc_pending == 0, "pattern analysis itself must not throw");
  CHECK((OUT[0] != 0) == (VALID[%s] != 0), "a pattern is accepted iff it is in the documented regex syntax (reference recursive-descent recogniser)");''' % idx,
            witness='OUT[0] == 1 && IN[0] == \'[\'' if L >= 3 else 'OUT[0] == 1', default_unwind=L + 3,
            bounds={'context_parse': 4 * L + 8, 'match_range': L + 2, 'match': L + 2, 'erase': 6, 'update': L + 2, 'k_rxvalid': L + 2, 'find_char': 8, 'skip_whitespace': L + 2},
            mode='safety', meta={'module': 'c17', 'L': L, 'class_strings': len(tab), 'valid': sum(tab)}, timeout=1500 if tier == 'quick' else 3000, mem_gb=16))
    ks.append(kernel.Kernel(wd, 'find_str', CPP2,
        protos=[('uint32_t', 'k_find', ['const uint8_t*', 'const uint8_t*']), ('uint32_t', 'k_nterm', ['uint32_t'])],
        inputs=[('NAMES', 'uint8_t', 9), ('NEEDLE', 'uint8_t', 3), ('C', 'uint32_t', 1)], outputs=[('R', 'uint32_t', 1), ('E1', 'uint32_t', 1), ('R2', 'uint32_t', 1), ('E2', 'uint32_t', 1)],
        assume='C < 256',
        ref_c='static int eq3(const uint8_t* a, const uint8_t* b) { for (int i = 0; i < 3; i++) { if (a[i] != b[i]) return 0; if (a[i] == 0) return 1; } return 1; }\n',
        call_c='  exc_pending = 0; R = K(k_find)(NAMES, NEEDLE); E1 = (uint32_t)exc_pending; exc_pending = 0; R2 = K(k_nterm)(C); E2 = (uint32_t)exc_pending; exc_pending = 0;',
        oracle_c='''  int want = -1;
  for (int i = 2; i >= 0; i--) if (eq3(NAMES + 3 * i, NEEDLE)) want = i;
  if (want < 0) CHECK(E1 == 1, "a symbol that is not declared is refused with an exception, never resolved to some arbitrary index");
  else { CHECK(E1 == 0, "a declared symbol is found"); CHECK(R == (uint32_t)want, "a symbol resolves to the first declaration with that name"); }
  CHECK((E2 == 1) == (C == 0), "a nonterminal with an empty name is rejected, any other name accepted");''',
        witness='E1 == 0 && R == 2', default_unwind=6, bounds={'find_str': 5, 'str_equal': 5, 'k_find': 5}, fn_bounds={'harness': 12, 'eq3': 5, 'oracle': 5}, mode='safety', meta={'module': 'c17'}))
    return ks

def replay(r, wd):
    for k in kernels(wd, 'thorough'):
        if k.name == r['kernel']:
            k.unit.build(); k.build_native(); return k.run_native('real', r['inputs'])

def run(tier, seed):
    import common_parse as cp
    R = report.Run('C17', tier, seed); cases = []
    wd = vlib.workdir('C17')
    ks = kernels(wd, tier)
    kernel.run_kernels(R, ks)
    # the pattern grammar over abstract tokens: unbalanced group, dangling / empty repetition, empty alternative, leading quantifier are syntax errors
    cp.run_parse_property('C17', tier, seed, [(rx_grammar(), [2] if tier == 'quick' else [1, 2, 3, 4])], ['accept', 'messages'], '', [], [], validate_cf=False, wit_every=1, finish=False, R=R, defer=cases, tag='g')
    R.outside = ['patterns longer than the stated length', 'a grammar referencing an undeclared symbol is rejected through find_str at construction: the lookup kernel is decided symbolically, whole constructions are not executed in CBMC',
                 'what the accepted patterns mean (C03)']
    R.assumptions = ['reference validity: recursive-descent recogniser written from the README syntax table, tabulated over byte-class strings (19 classes); every byte value is covered through its class',
                     'safety mode: all reads while scanning the pattern stay inside the cstring_buffer array (CBMC bounds / pointer checks + sub-object assertions)']
    return cp.run_deferred(R, tier, cases, 'pattern lexer: one query per exact length, every byte string; pattern grammar: token strings of the stated length; thorough also: the real regex_parser_object end to end for lengths 1-2; one query per exact pattern length: for every byte string offered as a pattern (all 256 values) the library\'s regex lexer + grammar accept it iff the reference recogniser does, without reading outside the buffer; '
                    'symbol lookup decided for arbitrary name tables')
