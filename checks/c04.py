"""C04 - tokenisation is longest-match over all terms with first-listed priority."""
import families, report, common_parse as cp
def run(tier, seed):
    T = {g.name: g for g in families.t_sets()}
    R = report.Run('C04', tier, seed); cases = []
    if tier == 'quick':
        plan = [(('kwid', 'abcd'), [3], 0, 0), (('eqeq',), [2], 0, 0), (('kwx',), [2], 1, 1), (('idkw', 'num'), [2], 1, 0)]
    else:
        plan = [(tuple(T), [1, 2, 3, 4], 0, 0), (tuple(T), [2, 3, 4], 1, 1), (tuple(T), [2, 3], 1, 0)]
    for names, Ls, ws, nl in plan:
        sel = [(T[n], Ls) for n in names]
        cp.run_parse_property('C04', tier, seed, sel, ['accept', 'value', 'messages', 'positions'], '', ['term sets outside the T-sets family', 'inputs longer than LEN'],
                              ['reference lexer: union of the per-term reference automata, longest match, lowest term index wins ties, documented whitespace sets',
                               'harness grammar S -> S K | K, K -> t_i: every token sequence is syntactically valid, so the functor log (term, line, column, first byte, length) is the token stream'],
                              ws=ws, nl=nl, validate_cf=False, wit_every=2, finish=False, R=R, defer=cases, tag='b')
    return cp.run_deferred(R, tier, cases,
        'one query per (term set, whitespace options, exact input length): for every byte string (all 256 values) the generated lexer inside the real parser delivers exactly the reference token stream '
        '(term, offset as line/column, length and first byte of the lexeme handed to the functor), and fails with exactly one Unexpected character message at the reference position iff the reference finds no non-empty match')
