"""C04 - tokenisation is longest-match over all terms with first-listed priority."""
import os
import families, report, vlib, emit, lexref, kernel, buf_kernel, common_parse as cp

TAB_CPP = '''#include "hv.h"
using namespace ctpg; using namespace ctpg::buffers; using namespace ctpg::ftors;
hv::state hv::hv_S; const void* hv::hv_ctx_addr = nullptr; unsigned hv::hv_ctx_tag = 0; hv::lex_state hv::hv_L;
#define HV_CTX_PARAM hv::ctx_t&
%s
extern "C" __attribute__((noinline)) uint32_t k_tr(uint32_t s, uint32_t c) { return g::p.lexer_sm[s].transitions[c & 0xff]; }
extern "C" __attribute__((noinline)) uint32_t k_acc(uint32_t s) { return g::p.lexer_sm[s].conflicted_recognition[0]; }
extern "C" __attribute__((noinline)) uint32_t k_size() { return (uint32_t)g::p.lexer_sm.size(); }
'''
TAB_H = '''#include "%(unit_c)s"
#include "rt.h"
#include "check.h"
%(tables)s
#define NONE 65535u
uint8_t nondet_uchar(void); uint32_t nondet_uint(void);
uint32_t R; uint8_t C;
static uint16_t H[NREAL]; static uint16_t Q[NREAL];
/* the union automaton built by the real create_lexer / add_term_data_to_dfa / alt merges against the reference lexer automaton (minimal, states labelled with the
   winning term): a label-preserving homomorphism from every reachable real state means the same (term, length) decision on inputs of ANY length */
void harness(void) {
  unsigned n = g_k_size();
  __CPROVER_assert(n <= NREAL && n >= 1, "the lexer automaton fits the statically computed size");
  for (unsigned i = 0; i < NREAL; i++) H[i] = NONE;
  H[0] = 0; Q[0] = 0; unsigned qn = 1;
  for (unsigned qi = 0; qi < NREAL; qi++) {
    if (qi >= qn) break;
    unsigned r = Q[qi];
    for (unsigned c = 0; c < 256; c++) {
      unsigned t = g_k_tr(r, c);
      if (t != NONE && t < NREAL && H[t] == NONE) { H[t] = RL_tr[H[r]][RL_cls[c]]; Q[qn] = (uint16_t)t; qn++; }
    }
  }
  R = nondet_uint(); C = nondet_uchar();
  __CPROVER_assume(R < n && H[R] != NONE);
  unsigned t = g_k_tr(R, C), qq = RL_tr[H[R]][RL_cls[C]];
#ifdef WITNESS_ON
  WITNESS(t != NONE && R != 0, "interesting outcome reachable");
#else
  if (t == NONE) CHECK(RL_dead[qq], "where the lexer has no transition no term can still match");
  else { CHECK(t < n, "transition target inside the automaton"); if (t < n) CHECK(H[t] == qq, "every transition of the generated lexer follows the reference lexer automaton"); }
  unsigned lab = RL_lab[H[R]];
  CHECK(g_k_acc(R) == (lab == 255 ? NONE : lab), "each lexer state recognises exactly the first-listed term among those matching there");
#endif
}
'''
def lexer_table_queries(wd, grammars):
    qs = []; units = []
    for g in grammars:
        d = lexref.LexDFA(g.tkinds); tr, lab, dead = d.minimal_tables()
        cols = {}
        for c in range(256): cols.setdefault(tuple(tr[s][c] for s in range(len(tr))), []).append(c)
        cls = list(cols.values()); cmap = [0] * 256
        for i, cs in enumerate(cls):
            for c in cs: cmap[c] = i
        nreal = sum({'char': 2, 'str': 0, 'regex': 0}[t['kind']] + (2 * len(t['s']) if t['kind'] == 'str' else 0) + (rxsize(t['pattern']) if t['kind'] == 'regex' else 0) for t in g.tkinds)
        tabs = '#define NREAL %d\nstatic const uint8_t RL_cls[256] = {%s};\nstatic const uint8_t RL_lab[%d] = {%s};\nstatic const uint8_t RL_dead[%d] = {%s};\nstatic const uint8_t RL_tr[%d][%d] = {%s};\n' % (
            nreal, ','.join(map(str, cmap)), len(tr), ','.join(map(str, lab)), len(tr), ','.join('1' if x else '0' for x in dead), len(tr), len(cls),
            ','.join('{%s}' % ','.join(str(tr[s][cs[0]]) for cs in cls) for s in range(len(tr))))
        u = vlib.Unit(wd, 'lt_' + g.name, TAB_CPP % emit.grammar_cpp(g), defines=['LEN=1', 'MAXMSG=2', 'MAXRED=2', 'MAXTERM=2'])
        units.append(u)
        for wit in (False, True):
            qs.append(vlib.Query('q_lextab_%s%s' % (g.name, '_wit' if wit else ''), u, TAB_H % {'unit_c': os.path.basename(u.c), 'tables': tabs}, fn_bounds={'harness': 258}, default_unwind=max(258, nreal + 2),
                                 defines=(['WITNESS_ON'] if wit else []), expect='witness' if wit else 'hold', timeout=900, mem_gb=8, inputs=['R', 'C'], meta={'unit': g.name, 'kind': 'lexer-table'}))
    return units, qs
def rxsize(p):
    import rx, rxcheck
    return rxcheck.dfa_size(rx.parse(p))
def run(tier, seed):
    T = {g.name: g for g in families.t_sets()}
    R = report.Run('C04', tier, seed); cases = []
    if tier == 'quick':
        plan = [(('kwid', 'abcd', 'idext'), [3], 0, 0), (('eqeq',), [2], 0, 0), (('kwx',), [2], 1, 1), (('idkw', 'num'), [2], 1, 0)]
    else:
        plan = [(tuple(T), [1, 2, 3], 0, 0), (tuple(T), [2, 3], 1, 1), (tuple(T), [2], 1, 0), (('kwid', 'abcd'), [4], 0, 0)]
    for names, Ls, ws, nl in plan:
        sel = [(T[n], Ls) for n in names]
        cp.run_parse_property('C04', tier, seed, sel, ['accept', 'value', 'messages', 'positions'], '', ['term sets outside the T-sets family', 'inputs longer than LEN'],
                              ['reference lexer: union of the per-term reference automata, longest match, lowest term index wins ties, documented whitespace sets',
                               'harness grammar S -> S K | K, K -> t_i: every token sequence is syntactically valid, so the functor log (term, line, column, first byte, length) is the token stream'],
                              ws=ws, nl=nl, validate_cf=False, wit_every=2, finish=False, R=R, defer=cases, tag='b')
    # the lexeme handed to a term functor is exactly the slice of the caller's buffer: get_view kernel over the encodable buffer kinds
    kernel.run_kernels(R, buf_kernel.kernels(vlib.workdir('C04', fresh=False)))
    # table level: the generated lexer automaton of EVERY term set of the family against the reference lexer automaton (inputs of any length)
    wd = vlib.workdir('C04', fresh=False)
    # a term set with a recorded finding (known_findings.json) has no homomorphism at all: the exact-length queries check it outside the recorded inputs instead
    kn = {k.get('unit') for k in R.known}
    units, tq = lexer_table_queries(wd, [g for g in T.values() if g.name not in kn])
    R.extra['lexer_table_units_skipped_for_recorded_findings'] = sorted(kn & set(T))
    vlib.build_units(units)
    for u in units: R.add_unit(u, desc='lexer table of term set ' + u.name)
    for r in vlib.run_queries([q for q in tq if q.unit.ok]):
        R.record(r)
        if r['expect'] == 'witness':
            if r['status'] != 'sat': R.inconclusive.append('witness %s: %s' % (r['id'], r['status']))
        elif r['status'] == 'inconclusive': R.inconclusive.append('%s: %s' % (r['id'], r['reason']))
        elif r['status'] == 'sat':
            R.violation('term set %s: the generated lexer automaton differs from the reference lexer at state %s on byte %s: %s' % (r['meta']['unit'], r['inputs'].get('R'), r['inputs'].get('C'),
                        '; '.join(f['desc'] for f in r['failed'])[:200]), {'query': r['id'], 'kind': 'lexer-table', 'unit': r['meta']['unit'], 'input_hex': '', 'inputs': r['inputs']})
    return cp.run_deferred(R, tier, cases,
        'one query per (term set, whitespace options, exact input length): for every byte string (all 256 values) the generated lexer inside the real parser delivers exactly the reference token stream '
        '(term, offset as line/column, length and first byte of the lexeme handed to the functor), and fails with exactly one Unexpected character message at the reference position iff the reference finds no non-empty match')
