"""C05 - shift/reduce conflicts are resolved by the documented precedence rules."""
import vlib, report, kernel, families, lr1, common_parse as cp

CPP = r'''#include "hv.h"
using namespace ctpg;
namespace g {
constexpr nterm<int> E("E");
constexpr custom_term n("n", [](std::string_view){ return 0; });
constexpr custom_term plus("+", [](std::string_view){ return 0; });
constexpr custom_term times("*", [](std::string_view){ return 0; });
constexpr parser p(E, terms(n, plus, times), nterms(E), rules(E(n), E(E, plus, E), E(E, times, E), E(plus, E, times, E)), use_lexer<hv::tok_lexer<3>>{});
}
using P = std::remove_const_t<decltype(g::p)>;
struct lim { static const size_t state_count_cap = 2; static const size_t max_sit_count_per_state_cap = 2; };
using PS = decltype(parser(g::E, terms(g::n, g::plus, g::times), nterms(g::E), rules(g::E(g::n), g::E(g::E, g::plus, g::E), g::E(g::E, g::times, g::E), g::E(g::plus, g::E, g::times, g::E)), use_lexer<hv::tok_lexer<3>>{}, lim{}));
// solve_conflict on a harness-owned grammar_info: every attribute it reads is an argument
extern "C" __attribute__((noinline)) uint32_t k_solve(int32_t rp, int32_t tp, uint32_t assoc, uint32_t rule, uint32_t term, uint32_t rinfo)
{
    PS::grammar_info gi{};
    gi.rule_infos[rinfo].r_idx = (size16_t)rule;
    gi.rule_precedences[rule] = rp; gi.term_precedences[term] = tp; gi.rule_associativities[rule] = (associativity)assoc;
    // other cells hold different values so that a wrong index is visible
    for (unsigned i = 0; i < PS::rule_count; ++i) if (i != rule) { gi.rule_precedences[i] = rp + 1 + (int)i; gi.rule_associativities[i] = (associativity)((assoc + 1) % 3); }
    for (unsigned i = 0; i < PS::term_count; ++i) if (i != term) gi.term_precedences[i] = tp - 1 - (int)i;
    PS::simple_state_table st; PS::lr1_parse_table tb{};
    PS::state_analyzer* sa = new PS::state_analyzer(gi, st, tb);
    uint32_t k = (uint32_t)sa->solve_conflict((size16_t)rinfo, (size16_t)term);
    delete sa;
    return k;
}
// rule attributes from an arbitrary right side (<= 4 symbols), arbitrary term precedences / associativities, arbitrary explicit [n]
extern "C" __attribute__((noinline)) void k_rule_attrs(const uint8_t* isterm, const uint8_t* idx, uint32_t n, int32_t expl, const int32_t* tprec, const uint8_t* tassoc, uint32_t* out)
{
    P q = g::p;
    const unsigned R = 3;                      // the 4-element rule
    for (unsigned i = 0; i < 4; ++i) { q.gi.right_sides[R][i].term = isterm[i] != 0; q.gi.right_sides[R][i].idx = idx[i]; }
    for (unsigned i = 0; i < P::term_count; ++i) { q.gi.term_precedences[i] = tprec[i]; q.gi.term_associativities[i] = (associativity)tassoc[i]; }
    q.gi.rule_last_terms[R] = q.calculate_rule_last_term(R, (size16_t)n);
    out[0] = q.gi.rule_last_terms[R];
    out[1] = (uint32_t)q.calculate_rule_precedence(expl, R);
    out[2] = (uint32_t)q.calculate_rule_associativity(R);
}
'''

def kernels(wd):
    ks = []
    ks.append(kernel.Kernel(wd, 'solve_conflict', CPP,
        protos=[('uint32_t', 'k_solve', ['int32_t', 'int32_t', 'uint32_t', 'uint32_t', 'uint32_t', 'uint32_t'])],
        inputs=[('RP', 'int32_t', 1), ('TP', 'int32_t', 1), ('ASSOC', 'uint32_t', 1), ('RULE', 'uint32_t', 1), ('TERM', 'uint32_t', 1), ('RINFO', 'uint32_t', 1)],
        outputs=[('KIND', 'uint32_t', 1)],
        assume='ASSOC <= 2 && RULE < 5 && TERM < 5 && RINFO < 5 && RP > -2000000000 && RP < 2000000000 && TP > -2000000000 && TP < 2000000000',
        call_c='  KIND = K(k_solve)(RP, TP, ASSOC, RULE, TERM, RINFO);',
        oracle_c='''  /* property statement: reduce iff r's precedence is higher than t's, or equal with the last term left-associative (1 = ltor); else shift.  kind: 2 = shift, 4 = reduce */
  int red = (RP > TP) || (RP == TP && ASSOC == 1);
  CHECK(exc_pending == 0, "no exception");
  CHECK(KIND == (red ? 4u : 2u), "S/R conflict resolved by precedence, then associativity of the rule's last term");''',
        witness='KIND == 4 && RP == TP', default_unwind=140, bounds={'k_solve': 7}, meta={'module': 'c05'}))
    ks.append(kernel.Kernel(wd, 'rule_attrs', CPP,
        protos=[('void', 'k_rule_attrs', ['const uint8_t*', 'const uint8_t*', 'uint32_t', 'int32_t', 'const int32_t*', 'const uint8_t*', 'uint32_t*'])],
        inputs=[('ISTERM', 'uint8_t', 4), ('IDX', 'uint8_t', 4), ('N', 'uint32_t', 1), ('EXPL', 'int32_t', 1), ('GIVEN', 'uint8_t', 1), ('TPREC', 'int32_t', 5), ('TASSOC', 'uint8_t', 5)],
        outputs=[('OUT', 'uint32_t', 3)],
        assume='N <= 4 && GIVEN <= 1 && (GIVEN || EXPL == 0) && ISTERM[0] <= 1 && ISTERM[1] <= 1 && ISTERM[2] <= 1 && ISTERM[3] <= 1 && IDX[0] < 3 && IDX[1] < 3 && IDX[2] < 3 && IDX[3] < 3 && '
               'TASSOC[0] <= 2 && TASSOC[1] <= 2 && TASSOC[2] <= 2 && TASSOC[3] <= 2 && TASSOC[4] <= 2',
        call_c='  K(k_rule_attrs)(ISTERM, IDX, N, EXPL, TPREC, TASSOC, OUT);',
        oracle_c='''  int last = -1;
  for (unsigned i = 0; i < 4; i++) if (i < N && ISTERM[i]) last = IDX[i];
  CHECK(exc_pending == 0, "no exception");
  CHECK(OUT[0] == (last < 0 ? 65535u : (uint32_t)last), "last term of the rule is the rightmost term of its right side");
  int32_t want = GIVEN ? EXPL : (last >= 0 ? TPREC[last] : 0);
  CHECK((int32_t)OUT[1] == want, "rule precedence is the explicit [n] when given, otherwise that of the last term, default 0");
  CHECK(OUT[2] == (last >= 0 ? (uint32_t)TASSOC[last] : 0u), "rule associativity is that of the last term");''',
        witness='OUT[1] == 7 && GIVEN == 0 && N == 3', default_unwind=7, bounds={'k_rule_attrs': 7, 'calculate_rule_last_term': 6}, meta={'module': 'c05'}))
    return ks

def replay(r, wd):
    for k in kernels(wd):
        if k.name == r['kernel']:
            k.unit.build(); k.build_native(); return k.run_native('real', r['inputs'])

def run(tier, seed):
    R = report.Run('C05', tier, seed)
    wd = vlib.workdir('C05')
    P = families.g_prec()
    cases = []
    PN = {g.name: g for g in P}
    if tier == 'quick': sel = [(PN[n], [3]) for n in ('p_ll', 'p_rr', 'p_eqr', 'p_none', 'p_else')] + [(PN['p_neg'], [4]), (PN['p_perm'], [5]), (PN['p_lr'], [5])]
    else: sel = [(g, [1, 2, 3, 4, 5]) for g in P] + [(g, [2, 3, 4]) for g in families.g_rand(seed + 300, 8, want='sr')]
    cp.run_parse_property('C05', tier, seed, sel, ['accept', 'value'], '', cp.STD_OUTSIDE + ['precedence assignments outside G-prec'], cp.STD_ASSUME, validate_cf=False, finish=False, R=R, defer=cases)
    # explicit [n] on rules with CONTEXTUAL functors, both spellings rule[n] >>= f and (rule >>= f)[n] (through context_parse)
    from c13 import mixed_prec
    csel = [(mixed_prec(PN['p_neg'], prefix=True), [4])] if tier == 'quick' else [(mixed_prec(PN[n], prefix=pf), [3, 4, 5]) for n in ('p_neg', 'p_expl') for pf in (True, False)]
    cp.run_parse_property('C05', tier, seed, csel, ['accept', 'value'], '', [], [], validate_cf=False, finish=False, R=R, defer=cases, variant='ctx', ctxkind=0, tag='cx')
    ks = kernels(wd)
    kernel.run_kernels(R, ks)
    R.assumptions.append('solve_conflict / calculate_rule_* kernels: every precedence, associativity, index and the explicit [n] are solver variables (32-bit)')
    return cp.run_deferred(R, tier, cases,
        'kernels: solve_conflict and rule-attribute computation decided for all 32-bit precedences, associativities, right sides <= 4 symbols; '
        'behaviour: one query per (ambiguous operator grammar with declarations, exact input length): for every byte string the value (a hash of the tree shape) equals '
        'the reference LR(1) parser whose S/R conflicts are resolved by the documented rule, i.e. expressions group by precedence then associativity')
