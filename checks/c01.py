"""C01 - a conflict-free grammar's parser accepts exactly the grammar's language."""
import vlib, report, parsecheck, families, lr1, kernel, c01_table

def units(tier, seed):
    d = {g.name: g for g in families.g_dir()}
    if tier == 'quick':
        sel = [(d['d1'], [3]), (d['d2'], [4]), (d['lrece'], [3]), (d['lalr'], [3]), (d['nullrun'], [3]), (d['mutleft'], [3]), (d['chain'], [3]), (d['trail'], [3]), (d['nulfirst'], [3]), (d['interl'], [3]), (d['lrnul'], [3]), (d['firstmut'], [3])]
        sel += [(g, [3]) for g in families.g_rand(seed, 3)]
    else:
        sel = [(g, [1, 2, 3, 4, 5]) for g in d.values() if g.name not in families.KNOWN_DEFECT_UNITS | families.SPECIAL_VARIANT_UNITS] + [(g, [2, 3, 4, 5]) for g in families.g_rand(seed, 24)]
        sel = [(g, [l for l in ls if (g.nt + 1) ** l <= 20000]) for g, ls in sel]
    return sel

def run(tier, seed):
    R = report.Run('C01', tier, seed)
    wd = vlib.workdir('C01')
    cases = []
    for g, Ls in units(tier, seed):
        lr = lr1.LR1(g)
        assert lr.conflict_free, g.name
        ok, toks, a, b, n = lr1.validate(g, lr, 5 if (g.nt ** 5) < 5000 else 4)
        if not ok: R.inconclusive.append('reference LR(1) disagrees with Earley on %s for %r' % (g.name, toks))
        R.extra.setdefault('oracle_validation', {})[g.name] = {'strings_compared_with_earley': n}
        for L in Ls:
            cases.append(parsecheck.ParseCase(wd, g, L, ['accept'], lr=lr, witness='OUT[O_OK] == 1 && R.ok' if lr1.bounds(g, lr, L)['accepted'] else 'OUT[O_NMSG] == 1 && !R.ok'))
    # table level: for EVERY unit of the directed family (and the random ones) the real table is the canonical LR(1) table up to state renaming
    tg = families.g_dir() + families.g_rand(seed, 3 if tier == 'quick' else 24)
    kernel.run_kernels(R, c01_table.kernels(wd, tg), witness=(tier != 'quick'))
    R.extra['table_isomorphism_units'] = len(tg)
    wit = [c for i, c in enumerate(cases) if tier == 'thorough' or i % 3 == 0]
    report.run_parse_cases(R, cases, witness_for=wit, timeout=1800 if tier == 'quick' else 3600, mem_gb=12 if tier == 'quick' else 24)
    R.outside = ['grammars outside the generated families', 'inputs longer than the stated LEN', 'whole table constructions on symbolic grammars (DESIGN 2.2)',
                 'token level: terms are custom_terms recognised by a one-byte custom lexer (generated lexer: C03/C04)']
    R.assumptions = ['token-level custom lexer maps byte a+k to term k', 'options: skip_whitespace=false', 'program dimension is a generated finite family']
    return R.finish('table level: for every unit and every (state, symbol) the real cell equals the canonical LR(1) action / goto up to the item-set bijection (so the unit\'s parser accepts the grammar\'s language for inputs of ANY length, '
                    'given the driver, which the exact-length queries and the reduce-step kernel of C02 check); one query per (grammar unit, exact input length): all 256^L byte strings decided by CBMC/MiniSat against the reference canonical LR(1) interpreter; '
                    'non-trivial = distinct (unit, L) with at least one property assertion in the sliced formula')
