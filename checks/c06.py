"""C06 - parsing any byte string is memory-safe and terminates."""
import families, report, vlib, rxcheck, rx, common_parse as cp

RX_PATTERNS = ['a(b|c)*d', '[0-9]+', 'ab|cd', '[^a]x?', 'a{2}']

def run(tier, seed):
    d = {g.name: g for g in families.g_dir() + families.g_err() + families.t_sets()}
    R = report.Run('C06', tier, seed); cases = []
    if tier == 'quick': tok = [('d1', [2], 1, 1), ('nrun4', [1], 0, 0), ('nrun3', [2], 0, 0), ('er1', [2], 1, 1)]; byt = [('kwid', [2], 1, 1)]
    else: tok = [(n, [1, 2, 3], 1, 1) for n in ('d1', 'd2', 'etf', 'lrece', 'rrece', 'nullrun', 'nrun4', 'nrun3', 'chain', 'trail', 'er1', 'er2', 'er3')]; byt = [(n, [1, 2, 3], 1, 1) for n in ('kwid', 'eqeq', 'kwx', 'num', 'nlterm', 'hi')]
    A = ['accept']
    outside = ['inputs longer than LEN (the claim is bounded; the unwinding bounds are closed forms of LEN and are checked by unwinding assertions)', 'string_buffer (std::string internals)',
               'std::vector-backed stacks (heap model)', 'IR is the -O1 lowering: an access the optimiser removed is not seen']
    assume = ['checks: CBMC bounds / pointer / pointer-primitive / pointer-overflow / div-by-zero / undefined-shift checks on the translated code, translator-emitted sub-object (R4) index assertions, '
              'bad_variant_access and library abort helpers are assertion failures, termination = unwinding assertions',
              'operator new modelled as non-failing malloc']
    for n, Ls, ws, nl in tok + byt:
        cp.run_parse_property('C06', tier, seed, [(d[n], Ls)], A, '', outside, assume, ws=ws, nl=nl, validate_cf=False, wit_every=2, finish=False, R=R, defer=cases, mode='safety', tag='s')
    # the verbose trace path reads tables too (term names, rule numbers): same obligation with verbose on
    for n, Ls in ([('d1', [2]), ('er1', [2])] if tier == 'quick' else [('d1', [1, 2, 3]), ('er1', [1, 2, 3]), ('etf', [2]), ('kwid', [2])]):
        cp.run_parse_property('C06', tier, seed, [(d[n], Ls)], A, '', outside, assume, ws=1, nl=1, verbose=1, validate_cf=False, wit_every=2, finish=False, R=R, defer=cases, mode='safety', tag='sv')
    # standalone regex matcher on any string, matching or not
    wd = vlib.workdir('C06', fresh=False)
    lmax = 3 if tier == 'quick' else 5
    b = rxcheck.RxBatch(wd, 99, RX_PATTERNS if tier != 'quick' else RX_PATTERNS[:3], lmax, 900)
    vlib.build_units([b.unit]); R.add_unit(b.unit, desc='regex::expr::match on patterns ' + ' , '.join(RX_PATTERNS))
    rq = []
    if b.unit.ok:
        for c in b.cases:
            q = c.query(tag='_safe'); q.mode = 'safety'; rq.append(q)
    rres = vlib.run_queries(rq) if rq else []
    for r in rres:
        R.record(r)
        c = r['meta']['case']
        if r['status'] == 'unsat': continue
        if r['status'] == 'inconclusive': R.inconclusive.append('%s: %s' % (r['id'], r['reason'])); continue
        props, unwind, mach, other = report.classify_failed(r)
        inp = (r['inputs'].get('IN') or [])[:(r['inputs'].get('N') or 0)]
        desc = '; '.join(sorted(set(f['desc'] for f in r['failed'])))[:300]
        # confirmation: AddressSanitizer build of the real matcher on the same subject
        conf = asan_confirm(wd, c.pat, inp)
        robj = {'query': r['id'], 'kind': 'rx', 'pattern': c.pat, 'LMAX': c.lmax, 'input_hex': vlib.hexs(inp), 'failed': r['failed'][:6], 'asan': conf}
        if other and conf: R.violation('regex::expr::match on pattern %r, subject %s: %s; confirmed by AddressSanitizer: %s' % (c.pat, vlib.hexs(inp), desc, conf[:160]), robj)
        elif props: R.inconclusive.append('%s: functional disagreement in a safety query (%s) - see C03' % (r['id'], desc))
        else: R.inconclusive.append('%s: solver reports %s on subject %s; AddressSanitizer shows no symptom' % (r['id'], desc, vlib.hexs(inp)))
    return cp.run_deferred(R, tier, cases,
        'one query per (unit, whitespace options, exact input length): for every byte string (all 256 values) no check of the memory-safety / UB class fails in the real parse path '
        '(table-driven driver, generated or custom lexer, stacks, reducers) and every loop terminates within its closed-form bound; plus regex::expr::match on arbitrary subjects <= LMAX',
        timeout=1500 if tier == 'quick' else 3600, mem_gb=16 if tier == 'quick' else 30)

def asan_confirm(wd, pat, inp):
    import os
    src = os.path.join(wd, 'asan_rx.cpp'); exe = os.path.join(wd, 'asan_rx')
    with open(src, 'w') as f:
        f.write('#include <ctpg/ctpg.hpp>\n#include <string>\n#include <cstdio>\nconstexpr char pat[] = R"RX(%s)RX"; constexpr ctpg::regex::expr<pat> rx;\n'
                'int main(int argc, char** argv){ std::string s; for (const char* h = argv[1]; h[0] && h[1]; h += 2){ unsigned v; sscanf(h, "%%2x", &v); s.push_back((char)v);} '
                'ctpg::buffers::string_buffer b(std::move(s)); bool m = rx.match(b); printf("match=%%d\\n", (int)m); }\n' % pat)
    rc, out, w, _ = vlib.run(['g++', '-std=c++17', '-O0', '-g', '-fsanitize=address', '-I' + os.path.join(vlib.REPO, 'include'), src, '-o', exe], timeout=600, mem_gb=16)
    if rc != 0: return ''
    rc, out, w, _ = vlib.run([exe, vlib.hexs(inp) or ''], timeout=30)
    if 'AddressSanitizer' in out:
        ln = [l for l in out.split('\n') if 'ERROR: AddressSanitizer' in l or 'ctpg.hpp' in l]
        return ' | '.join(x.strip()[:120] for x in ln[:2])
    return ''
