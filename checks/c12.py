"""C12 - statically computed capacities always suffice, or construction fails loudly."""
import vlib, report, kernel, families, rxcheck, rx, common_parse as cp

# one step of the table builder from an ARBITRARY analyzer state (allocator idiom): every vector size, bitset and the grammar description are solver
# variables constrained only by the representation invariant; the step must either throw or stay inside every vector and table (R4 assertions)
CPP = r'''#include "hv.h"
using namespace ctpg;
namespace g {
constexpr nterm<int> S("S"), B("B");
constexpr custom_term a("a", [](std::string_view){ return 0; });
constexpr custom_term b("b", [](std::string_view){ return 0; });
}
struct lim { static const size_t state_count_cap = 3; static const size_t max_sit_count_per_state_cap = 4; };
using P = decltype(parser(g::S, terms(g::a, g::b), nterms(g::S, g::B), rules(g::S(g::a, g::B), g::B(g::b), g::B(g::B, g::b)), use_lexer<hv::tok_lexer<2>>{}, lim{}));
static_assert(P::rule_count == 4 && P::situation_size == 3 && P::term_count == 4 && P::symbol_count == 7 && P::situation_address_space_size == 48);
static __attribute__((noinline)) void fill(P::grammar_info& gi, P::state_analyzer& sa, P::simple_state_table& st, const uint8_t* ri_ridx, const uint8_t* ri_n, const uint8_t* rs_term, const uint8_t* rs_idx,
                 const uint8_t* vsize, const uint8_t* bsize, const uint32_t* vdata, const uint32_t* bdata, const uint64_t* bits, uint32_t nstates, const uint64_t* kbits = nullptr)
{
    for (unsigned r = 0; r < 4; ++r) {
        gi.rule_infos[r].l_idx = 0; gi.rule_infos[r].r_idx = ri_ridx[r]; gi.rule_infos[r].r_elements = ri_n[r];
        for (unsigned k = 0; k < 2; ++k) { gi.right_sides[r][k].term = rs_term[2 * r + k] != 0; gi.right_sides[r][k].idx = rs_idx[2 * r + k]; }
    }
    sa.state_count = (size16_t)nstates;
    for (unsigned s = 0; s < 3; ++s) {
        st[s].data[0] = bits[s];
        if (kbits) sa.states[s].kernel.data[0] = kbits[s];
        sa.states[s].all_situations_vec.current_size = vsize[s];
        for (unsigned i = 0; i < 4; ++i) sa.states[s].all_situations_vec.the_data[i] = vdata[4 * s + i];
        for (unsigned y = 0; y < 7; ++y) {
            sa.states[s].situations_by_symbol[y].current_size = bsize[7 * s + y];
            for (unsigned i = 0; i < 4; ++i) sa.states[s].situations_by_symbol[y].the_data[i] = bdata[(7 * s + y) * 4 + i];
        }
    }
}
extern "C" __attribute__((noinline)) uint32_t k_add(const uint8_t* ri_ridx, const uint8_t* ri_n, const uint8_t* rs_term, const uint8_t* rs_idx, const uint8_t* vsize, const uint8_t* bsize,
                                                     const uint32_t* vdata, const uint32_t* bdata, const uint64_t* bits, uint32_t st_idx, uint32_t sit, uint32_t to_kernel, uint32_t* out)
{
    P::grammar_info gi{}; P::simple_state_table st{}; P::lr1_parse_table tb{};
    P::state_analyzer sao(gi, st, tb); P::state_analyzer* sa = &sao;
    fill(gi, *sa, st, ri_ridx, ri_n, rs_term, rs_idx, vsize, bsize, vdata, bdata, bits, 3);
    bool r = sa->add_situation((size16_t)st_idx, sit, to_kernel != 0);
    out[0] = sa->states[st_idx].all_situations_vec.current_size;
    out[1] = (uint32_t)st[st_idx].test(sit);
    out[2] = (uint32_t)sa->states[st_idx].kernel.test(sit);
    return r ? 1u : 0u;
}
// one call of transitions() - the step that creates LR states - from an arbitrary analyzer state with NSTATES states already present
extern "C" __attribute__((noinline)) uint32_t k_trans(const uint8_t* ri_ridx, const uint8_t* ri_n, const uint8_t* rs_term, const uint8_t* rs_idx, const uint8_t* vsize, const uint8_t* bsize,
                                                       const uint32_t* vdata, const uint32_t* bdata, const uint64_t* bits, const uint64_t* kbits, uint32_t nstates, uint32_t st_idx, uint32_t sym, uint32_t* out)
{
    P::grammar_info gi{}; P::simple_state_table st{}; P::lr1_parse_table tb{};
    P::state_analyzer sao(gi, st, tb); P::state_analyzer* sa = &sao;
    fill(gi, *sa, st, ri_ridx, ri_n, rs_term, rs_idx, vsize, bsize, vdata, bdata, bits, nstates, kbits);
    sa->transitions((size16_t)st_idx, (size16_t)sym, sa->states[st_idx].situations_by_symbol[sym]);
    out[0] = sa->state_count;
    out[1] = (uint32_t)tb[st_idx][sym].kind;
    out[2] = tb[st_idx][sym].arg;
    return 0;
}
'''

MODE2 = 'safety'
def kernels(wd, nstc=None):
    inv = ['ST < 3', 'SIT < 48', 'TOK <= 1']
    for r in range(4):
        inv += ['RI_RIDX[%d] < 4' % r, 'RI_N[%d] <= 2' % r]
        for k in range(2): inv += ['RS_TERM[%d] <= 1' % (2*r+k), 'RS_IDX[%d] < (RS_TERM[%d] ? 4 : 3)' % (2*r+k, 2*r+k)]
    for s in range(3): inv += ['VSIZE[%d] <= 4' % s, 'BITS[%d] < (1ULL << 48)' % s]
    for i in range(21): inv += ['BSIZE[%d] <= 4' % i]
    ref = '''static unsigned popcnt48(uint64_t x) { unsigned n = 0; for (int i = 0; i < 48; i++) n += (unsigned)((x >> i) & 1u); return n; }
static int repinv(void) {   /* representation invariant: a state's item vector lists exactly the items of its bit set; buckets never hold more than the state */
  for (int s = 0; s < 3; s++) { if (popcnt48(BITS[s]) != VSIZE[s]) return 0; for (int y = 0; y < 7; y++) if (BSIZE[7*s+y] > VSIZE[s]) return 0; }
  return 1;
}
'''
    k = kernel.Kernel(wd, 'add_situation', CPP,
        protos=[('uint32_t', 'k_add', ['const uint8_t*'] * 6 + ['const uint32_t*', 'const uint32_t*', 'const uint64_t*', 'uint32_t', 'uint32_t', 'uint32_t', 'uint32_t*'])],
        inputs=[('RI_RIDX', 'uint8_t', 4), ('RI_N', 'uint8_t', 4), ('RS_TERM', 'uint8_t', 8), ('RS_IDX', 'uint8_t', 8), ('VSIZE', 'uint8_t', 3), ('BSIZE', 'uint8_t', 21),
                ('VDATA', 'uint32_t', 12), ('BDATA', 'uint32_t', 84), ('BITS', 'uint64_t', 3), ('ST', 'uint32_t', 1), ('SIT', 'uint32_t', 1), ('TOK', 'uint32_t', 1)],
        outputs=[('RET', 'uint32_t', 1), ('OUT', 'uint32_t', 3)],
        assume=' && '.join(inv) + ' && repinv()', ref_c=ref,
        call_c='  RET = K(k_add)(RI_RIDX, RI_N, RS_TERM, RS_IDX, VSIZE, BSIZE, VDATA, BDATA, BITS, ST, SIT, TOK, OUT);',
        oracle_c='''  /* either the documented exception (limit exhausted) or a step inside every vector: the R4 / bounds assertions of the translated code are the capacity check */
  if (!exc_pending) {
    int had = (int)((BITS[ST] >> SIT) & 1u);
    CHECK(RET == (had ? 0u : 1u), "add_situation reports whether the item was new to the state");
    CHECK(OUT[1] == 1, "the item is in the state afterwards");
    CHECK(OUT[0] == VSIZE[ST] + (had ? 0u : 1u), "the item vector grows by exactly the new item");
    CHECK(OUT[0] <= 4, "a state never holds more items than max_sit_count_per_state_cap: exhausted limits must be rejected, not overrun");
  }''',
        witness='RET == 1 && !exc_pending && VSIZE[ST] == 3', default_unwind=50, bounds={'k_add': 50, 'fill': 90}, fn_bounds={'popcnt48': 49, 'repinv': 8, 'harness': 90},
        mode='safety', meta={'module': 'c12'}, timeout=900, mem_gb=12)
    inv2 = [x for x in inv if not x.startswith(('ST <', 'SIT <', 'TOK <'))] + ['NST >= 1', 'NST <= 3', 'ST < NST', 'SYM < 7']
    if nstc: inv2.append('NST == %d' % nstc)   # quick tier: the number of existing states is concrete (constant-propagated), the boundary case state_count == cap
    ref2 = ref + '''static int repinv2(void) {  /* item numbers inside the item address space; states not yet created are empty */
  for (int i = 0; i < 84; i++) if (BDATA[i] >= 48) return 0;
  for (int s = 0; s < 3; s++) {
    if ((KBITS[s] & ~BITS[s]) != 0) return 0;
    if (s >= (int)NST && (BITS[s] != 0 || VSIZE[s] != 0)) return 0;
  }
  return repinv();
}
'''
    k2 = kernel.Kernel(wd, 'transitions' + ('_n%d' % nstc if nstc else ''), CPP,
        protos=[('uint32_t', 'k_trans', ['const uint8_t*'] * 6 + ['const uint32_t*', 'const uint32_t*', 'const uint64_t*', 'const uint64_t*', 'uint32_t', 'uint32_t', 'uint32_t', 'uint32_t*'])],
        inputs=[('RI_RIDX', 'uint8_t', 4), ('RI_N', 'uint8_t', 4), ('RS_TERM', 'uint8_t', 8), ('RS_IDX', 'uint8_t', 8), ('VSIZE', 'uint8_t', 3), ('BSIZE', 'uint8_t', 21),
                ('VDATA', 'uint32_t', 12), ('BDATA', 'uint32_t', 84), ('BITS', 'uint64_t', 3), ('KBITS', 'uint64_t', 3), ('NST', 'uint32_t', 1), ('ST', 'uint32_t', 1), ('SYM', 'uint32_t', 1)],
        outputs=[('RET', 'uint32_t', 1), ('OUT', 'uint32_t', 3)],
        assume=' && '.join(inv2) + ' && repinv2()', ref_c=ref2,
        call_c=('  NST = %d;\n' % nstc if nstc else '') + '  RET = K(k_trans)(RI_RIDX, RI_N, RS_TERM, RS_IDX, VSIZE, BSIZE, VDATA, BDATA, BITS, KBITS, NST, ST, SYM, OUT);',
        oracle_c='''  /* either the documented exception or a step that stays inside the state table: the R4 / bounds assertions of the translated code check every write to
     states[], simple_states[] and parse_table[]; the explicit obligations restate the cap */
  if (!exc_pending) {
    CHECK(OUT[0] <= 3, "the number of LR states never exceeds state_count_cap: an exhausted limit must be rejected, not overrun");
    CHECK(OUT[0] == NST || OUT[0] == NST + 1, "one transition creates at most one state");
    if (OUT[1] == 2 || OUT[1] == 3) CHECK(OUT[2] < OUT[0], "a shift entry names an existing state");
  }''',
        witness='!exc_pending && OUT[0] == 3' + ('' if nstc else ' && NST == 2'), default_unwind=50, bounds={'k_trans': 9, 'fill': 90, 'transitions': 6, 'add_situation': 6, 'state_analyzer': 50}, fn_bounds={'popcnt48': 49, 'repinv': 8, 'repinv2': 90, 'harness': 90},
        mode=MODE2, meta={'module': 'c12'}, timeout=1500, mem_gb=16)
    return [k, k2]

def replay(r, wd):
    for k in kernels(wd):
        if k.name == r['kernel']:
            k.unit.build(); k.build_native(); return k.run_native('real', r['inputs'])

SIZE_PATTERNS = ['(a{2}){3}', 'b{0}ac', '(ab|c){4}', '((a|b){2}c){2}', 'a{12}', '(ab){0}c|d', '[a-z]{5}x*', '(a{3}b{2}){2}', '(a|b|c|d|e)+', 'a{0}b{1}c{2}', '((a?){2}){2}', '(a*b+c?){3}']

def run(tier, seed):
    R = report.Run('C12', tier, seed); cases = []
    wd = vlib.workdir('C12')
    d = {g.name: g for g in families.g_dir()}
    # (1) stack capacities of fixed-size buffers: nullable-run grammars in safety mode (R4 assertions on every stack push)
    plan = [('nrun4', [1], 0, 0), ('nrun3', [2], 0, 0), ('nullrun', [2], 0, 0)] if tier == 'quick' else [(n, [1, 2, 3], 0, 0) for n in ('nrun4', 'nrun3', 'nullrun', 'trail', 'lrece', 'rrece', 'chain')]
    for n, Ls, ws, nl in plan:
        cp.run_parse_property('C12', tier, seed, [(d[n], Ls)], ['accept'], '', ['default state cap vs exponential LR(1) families (no small witness)', 'whole constructions with user limits need-1 / need / need+1 (constructor execution inside CBMC is out of reach, DESIGN 2.2)',
                               'automata beyond 65535 states (16-bit transition targets) and repetition counts whose size arithmetic wraps 32 bits: not constructible within compiler limits'],
                              ['stack capacity N + EmptyRulesCount + 1 of cstring_buffer parses checked by sub-object index assertions on every push'],
                              ws=ws, nl=nl, validate_cf=False, wit_every=2, finish=False, R=R, defer=cases, mode='safety', tag='k')
    # (2) one-step builder kernel from an arbitrary analyzer state
    kernel.run_kernels(R, kernels(wd))
    # (3) automaton size: every pattern of the size family is built by the real constructor inside the constant evaluator with exactly the statically computed capacity
    #     (an overrun is a hard error of the unit), and the solver decides sm.size() <= dfa_size together with the language on strings <= LMAX
    pats = SIZE_PATTERNS if tier != 'quick' else SIZE_PATTERNS[:4]
    b = rxcheck.RxBatch(wd, 50, pats, 4, 500)
    vlib.build_units([b.unit])
    if not b.unit.ok and b.unit.error and b.unit.error.startswith('clang'):
        # a pattern whose automaton does not fit the statically computed capacity overruns the fixed-size automaton while the constant evaluator builds it: a hard error of the unit.
        # identify the pattern(s) by building each one alone
        import re
        for k, p in enumerate(pats):
            one = rxcheck.RxBatch(wd, 60 + k, [p], 4, 600 + k); one.unit.build()
            if not one.unit.ok and re.search(r'constant expression|out of bounds|outside|cannot refer to element|subscript', one.unit.error or ''):
                R.violation('pattern %r cannot be built with the statically computed capacity dfa_size: the constant evaluator rejects the construction (%s)' % (p, (one.unit.error or '')[:220]),
                            {'query': 'build_rx_%d' % k, 'kind': 'build', 'pattern': p, 'input_hex': ''})
            elif not one.unit.ok: R.inconclusive.append('pattern %r: unit does not build: %s' % (p, (one.unit.error or '')[:200]))
    else: R.add_unit(b.unit, desc='size family: ' + ' , '.join(pats))
    if b.unit.ok:
        rres = vlib.run_queries([c.query(tag='_size') for c in b.cases])
        for r in rres:
            R.record(r)
            if r['status'] == 'inconclusive': R.inconclusive.append('%s: %s' % (r['id'], r['reason']))
            elif r['status'] == 'sat':
                fs = [f for f in r['failed'] if 'statically computed size' in f['desc']]
                if fs: R.violation('pattern %r: automaton larger than the statically computed dfa_size' % r['meta']['pattern'], {'query': r['id'], 'kind': 'rx', 'pattern': r['meta']['pattern'], 'LMAX': 4, 'input_hex': ''})
                # language mismatches on these patterns belong to C03 (dfa_builder merge defect) and are not capacity findings
    # (4) default caps: the library derives state_count_cap and max_sit_count_per_state_cap = situation_count for itself.  situation_count counts every LR(1) item
    #     (rule position x lookahead, <eof> and the error token included), so it bounds any state's size; for the state count it is the library's own choice and must at least
    #     admit small dense automata.  Build obligation on single-terminal dense grammars (where the lookahead factor matters most): construction with DEFAULT limits inside the
    #     constant evaluator must succeed; "exceeds the cap" there is a violation (the throw makes the construction a non-constant expression).
    import os, lr1, emit
    capg = [lr1.Grammar('cap1', ['S'], ['x'], 'S', [('S', ['x', 'S', 'x', 'S']), ('S', [])]),
            lr1.Grammar('cap2', ['S'], ['x'], 'S', [('S', ['x', 'S', 'x']), ('S', ['x', 'S']), ('S', ['x'])]),
            lr1.Grammar('cap3', ['S', 'A'], ['x'], 'S', [('S', ['A', 'A', 'A', 'A']), ('A', ['x', 'A']), ('A', [])]),
            lr1.Grammar('cap4', ['S'], ['x'], 'S', [('S', ['x', 'S']), ('S', ['S', 'x']), ('S', ['x'])])]
    capinfo = {}
    for g in capg[:2] if tier == 'quick' else capg:
        lr = lr1.LR1(g); capinfo[g.name] = {'reference_states': len(lr.states), 'reference_max_items_per_state': max(len(s) for s in lr.states)}
        src = os.path.join(wd, 'caps_%s.cpp' % g.name)
        with open(src, 'w') as f:
            f.write('#include "hv.h"\nusing namespace ctpg; using namespace ctpg::buffers; using namespace ctpg::ftors;\nhv::state hv::hv_S; const void* hv::hv_ctx_addr = nullptr; unsigned hv::hv_ctx_tag = 0; hv::lex_state hv::hv_L;\n'
                    '#define HV_CTX_PARAM hv::ctx_t&\n' + emit.grammar_cpp(g) + '\nstatic_assert(g::p.state_count >= 1, "constructed");\nint main() { return 0; }\n')
        rcc, out, w, _ = vlib.run(['clang++-14', '-std=c++17', '-fsyntax-only', '-fconstexpr-steps=100000000', '-Wno-everything', '-I' + os.path.join(vlib.REPO, 'include'), '-I' + vlib.HARNESS, src], timeout=900, mem_gb=16)
        capinfo[g.name]['builds_with_default_limits'] = (rcc == 0)
        if rcc != 0:
            notes = [l.strip() for l in out.split('\n') if 'error:' in l or 'note:' in l]
            if any('constant expression' in l or 'exceeds the cap' in l or 'runtime_error' in l for l in notes):
                R.violation('grammar %s (%d LR(1) states, at most %d items per state) cannot be constructed with the DEFAULT limits: %s' % (g.name, capinfo[g.name]['reference_states'], capinfo[g.name]['reference_max_items_per_state'],
                            ' | '.join(notes[:3])[:300]), {'query': 'build_caps_%s' % g.name, 'kind': 'build', 'unit': 'caps_' + g.name, 'input_hex': ''})
            else: R.inconclusive.append('caps unit %s does not build: %s' % (g.name, ' | '.join(notes[:2])[:200]))
    R.extra['default_caps_family'] = capinfo
    return cp.run_deferred(R, tier, cases,
        'stack capacity: one safety-mode query per (nullable-run grammar, exact input length); builder: one add_situation step from an arbitrary caps-respecting analyzer state over a symbolic grammar '
        '(either the documented exception or no vector / table overrun); automaton size: patterns with nested repetitions built with exactly dfa_size states',
        timeout=1500 if tier == 'quick' else 3600, mem_gb=16 if tier == 'quick' else 30)
