"""Table-level check for C01: the real parse table is the canonical LR(1) table of the grammar up to state renaming.
Together with the driver checks (exact-length queries, reduce-step kernel) this covers inputs of ANY length for the unit's grammar."""
import kernel, lr1, emit, c11

def cpp_for(g):
    return '''#include "hv.h"
using namespace ctpg; using namespace ctpg::buffers; using namespace ctpg::ftors;
hv::state hv::hv_S; const void* hv::hv_ctx_addr = nullptr; unsigned hv::hv_ctx_tag = 0; hv::lex_state hv::hv_L;
#define HV_CTX_PARAM hv::ctx_t&
%s
using P = std::remove_const_t<decltype(g::p)>;
// one raw cell of the REAL table for a solver-chosen (state, symbol column), the state's item set, and the item set of a second state
extern "C" __attribute__((noinline)) void k_cell(uint32_t s, uint32_t x, uint32_t s2, uint32_t* out)
{
    const auto& e = g::p.parse_table[s][x];
    out[0] = (uint32_t)e.kind; out[3] = g::p.state_count;
    const bool sh = e.kind == P::parse_table_entry_kind::shift || e.kind == P::parse_table_entry_kind::shift_error_recovery_token;
    const bool rd = e.kind == P::parse_table_entry_kind::reduce;
    out[1] = sh ? e.arg : 0u;                                   // target state of a shift / goto
    out[2] = rd ? g::p.gi.rule_infos[e.arg].r_idx : 0u;         // rule number of a reduction
    out[4] = (uint32_t)P::nterm_count;
    for (unsigned w = 0; w < NWORDS; ++w) {
        out[8 + 2 * w] = (uint32_t)g::p.states[s].data[w]; out[9 + 2 * w] = (uint32_t)(g::p.states[s].data[w] >> 32);
        out[8 + 2 * NWORDS + 2 * w] = (uint32_t)g::p.states[s2].data[w]; out[9 + 2 * NWORDS + 2 * w] = (uint32_t)(g::p.states[s2].data[w] >> 32);
    }
}
extern "C" __attribute__((noinline)) void k_bits(uint32_t s, uint32_t* out)
{
    for (unsigned w = 0; w < NWORDS; ++w) { out[2 * w] = (uint32_t)g::p.states[s].data[w]; out[2 * w + 1] = (uint32_t)(g::p.states[s].data[w] >> 32); }
}
''' % emit.grammar_cpp(g)

def kernels(wd, grammars):
    ks = []
    for g in grammars:
        lr = lr1.LR1(g)
        tabs, nw, ns = c11.ref_tables(g, lr)
        gotos = 'static const uint16_t RGOTO[%d][%d] = {%s};\n' % (ns, g.nnt, ','.join('{%s}' % ','.join(str(lr.goto[i][k] if lr.goto[i][k] is not None else 65535) for k in range(g.nnt)) for i in range(ns)))
        ref = tabs + gotos + '''
static int find_ref_state(const uint32_t* bits) {
  for (int i = 0; i < NS; i++) { int eq = 1; for (int w = 0; w < 2 * NWORDS; w++) if (RBITS[i][w] != bits[w]) eq = 0; if (eq) return i; }
  return -1;
}
'''
        ncol = g.nnt + g.term_count
        ks.append(kernel.Kernel(wd, 'table_' + g.name, cpp_for(g),
            protos=[('void', 'k_cell', ['uint32_t', 'uint32_t', 'uint32_t', 'uint32_t*']), ('void', 'k_bits', ['uint32_t', 'uint32_t*'])],
            inputs=[('S', 'uint32_t', 1), ('X', 'uint32_t', 1), ('S2', 'uint32_t', 1)], outputs=[('OUT', 'uint32_t', 8 + 4 * nw), ('TB', 'uint32_t', 2 * nw)],
            assume='S < %d && S2 < %d && X < %d' % (len(lr.live), len(lr.live), ncol), ref_c=ref, defines=['NWORDS=%d' % nw],
            call_c='  K(k_cell)(S, X, S2, OUT);\n  if ((OUT[0] == 2 || OUT[0] == 3) && OUT[1] < OUT[3]) K(k_bits)(OUT[1], TB);',
            oracle_c='''  CHECK(exc_pending == 0, "no exception");
  CHECK(OUT[3] == NLIVE, "the table has exactly as many states as the canonical LR(1) collection of the grammar (states reachable after conflict resolution)");
  int rs = find_ref_state(OUT + 8), rs2 = find_ref_state(OUT + 8 + 2 * NWORDS);
  CHECK(rs >= 0 && rs2 >= 0 && RLIVE[rs >= 0 ? rs : 0] && RLIVE[rs2 >= 0 ? rs2 : 0], "every state is a reachable canonical LR(1) item set of the grammar");
  if (S != S2) CHECK(rs != rs2, "no two states have the same item set (with the count above: states correspond one-to-one)");
  if (rs >= 0) {
    int tgt = ((OUT[0] == 2 || OUT[0] == 3) && OUT[1] < OUT[3]) ? find_ref_state(TB) : -1;
    if (X < OUT[4]) {                                   /* goto column of a nonterminal */
      unsigned want = RGOTO[rs][X];
      if (want == 65535) CHECK(OUT[0] == 0, "no goto where the grammar has none");
      else { CHECK(OUT[0] == 2, "a goto where the grammar has one"); CHECK(tgt == (int)want, "the goto leads to the state with the advanced items"); }
    } else {
      unsigned t = X - OUT[4], code = RCODE[rs][t], arg = RARG[rs][t];
      if (code == 0) CHECK(OUT[0] == 0, "error entry exactly where no item allows the term");
      if (code == 1 || code == 5) { CHECK(OUT[0] == 2 || OUT[0] == 3, "shift where the grammar (after the documented conflict resolution) shifts"); CHECK(tgt == (int)arg || code == 5, "the shift leads to the state with the advanced items"); }
      if (code == 2 || code == 4) { CHECK(OUT[0] == 4, "reduce where the grammar (after the documented conflict resolution) reduces"); CHECK(OUT[2] == arg, "by the rule whose item is complete"); }
      if (code == 3) CHECK(OUT[0] == 1, "success exactly on the completed root item at end of input");
    }
  }''',
            witness='OUT[0] == 4', default_unwind=12, bounds={'k_cell': 4 * nw + 2, 'k_bits': 2 * nw + 2}, fn_bounds={'find_ref_state': max(ns, 2 * nw) + 2},
            mode='functional', meta={'module': 'c01_table', 'grammar': g.name, 'states': ns}, timeout=600, mem_gb=8))
    return ks

def replay(r, wd):
    import families
    G = families.g_dir() + families.g_err() + families.g_prec()
    for k in kernels(wd, [g for g in G if 'table_' + g.name == r['kernel']]):
        k.unit.build(); k.build_native(); return k.run_native('real', r['inputs'])
