"""./check replay <file>: rebuild the native driver for the recorded unit from /repo's current tree and re-run the recorded input"""
import sys, os, json
import vlib, lr1, families, parsecheck, rxcheck, rx

def all_grammars(seed_hint=None):
    d = {}
    for g in families.g_dir() + families.g_err() + families.g_prec(): d[g.name] = g
    return d

def find_grammar(name):
    d = all_grammars()
    if name in d: return d[name]
    if name.startswith('r'):   # random family: r<seed>_<k>
        try:
            seed = int(name[1:].split('_')[0])
            for want in ('conflict_free', 'sr'):
                for g in families.g_rand(seed, 64, want=want):
                    if g.name == name: return g
        except Exception: pass
    return None

def main(args):
    r = json.load(open(args[0]))
    wd = vlib.workdir('replay')
    try:
        if r.get('kind') == 'rx':
            b = rxcheck.RxBatch(wd, 0, [r['pattern']], r['LMAX'], 0)
            c = b.cases[0]; b.unit.build()
            if not b.build_native_for(c, 'real'): print('native build failed'); return 2
            res = c.run_native(bytes.fromhex(r['input_hex']))
        elif r.get('kind') in ('build', 'constexpr'):
            # a build / constant-evaluation / static-frame obligation has no input to re-run: the obligation itself is re-established from /repo's current tree
            import subprocess
            print('%s obligation of %s (%s): re-running ./check %s --tier quick' % (r.get('kind'), r['property'], r.get('unit') or r.get('query'), r['property']), flush=True)
            return subprocess.call([os.path.join(vlib.VERIF, 'check'), r['property'], '--tier', 'quick'])
        elif r.get('kind') == 'generic':
            import importlib
            mod = importlib.import_module(r['module'])
            res = mod.replay(r, wd)
        else:
            g = find_grammar(r['grammar'])
            if g is None: print('unknown grammar', r['grammar']); return 2
            o = r.get('opts') or [0, 0, 0]
            if r.get('ctx_rules'):
                import copy
                g = copy.deepcopy(g)
                for i in r['ctx_rules']: g.rules[i]['f'] = 'ctxhash'
            c = parsecheck.ParseCase(wd, g, r['L'], r.get('asserts') or ['accept', 'value', 'messages', 'positions'], ws=o[0], nl=o[1], verbose=o[2], extra_defs=r.get('extra_defs') or (),
                                     variant=r.get('variant', 'plain'), ctxkind=r.get('ctxkind', 0))
            c.build_native()
            if not c.native.get('real'): print('native build failed:', c.native.get('err')); return 2
            res = c.run_native('real', list(bytes.fromhex(r['input_hex'])), r.get('opts_value'), extra=r.get('extra'))
        print('input', r['input_hex'], '->', res)
        if res and res['verdict'] in ('FAIL', 'CRASH'):
            print('VIOLATION property=%s replay=%s' % (r['property'], args[0])); return 1
        print('does not fail on the current tree'); return 0
    finally:
        vlib.cleanup('replay')
