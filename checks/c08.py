"""C08 - error recovery follows the documented algorithm."""
import families, report, common_parse as cp
def run(tier, seed):
    E = families.g_err(); EN = {g.name: g for g in E}
    R = report.Run('C08', tier, seed); cases = []
    if tier == 'quick': plain = [(EN['er1'], [2, 3]), (EN['er2'], [2]), (EN['er3'], [2]), (EN['er4'], [2]), (EN['er5'], [2])]; verb = [(EN['er1'], [2])]
    else: plain = [(g, [1, 2, 3, 4, 5]) for g in E]; verb = [(g, [1, 2, 3]) for g in E]
    assume = cp.STD_ASSUME + ['README algorithm read as: the error token is presented to the current state first; states are popped only while the top state has no action on it; '
                              'a reduce on the error token is an action']
    # (a) verbose off: optional, value (hash of the surviving subtrees: values of states not discarded are kept), functor call sequence, term values consumed, syntax-error messages
    cp.run_parse_property('C08', tier, seed, plain, ['accept', 'value', 'messages', 'positions'], '', cp.STD_OUTSIDE, assume, verbose=0, want='recover', validate_cf=False, wit_every=2, finish=False, R=R, defer=cases)
    # (b) verbose on: the complete event log (pops = recovering-to-state events, shift of the error token, consumed terms, mode changes) via the hashing recorder
    cp.run_parse_property('C08', tier, seed, verb, ['accept', 'trace'], '', cp.STD_OUTSIDE, assume, verbose=1, want='recover', validate_cf=False, wit_every=2, finish=False, R=R, tag='v', defer=cases)
    return cp.run_deferred(R, tier, cases, 'one query per (grammar with error rules, exact input length): for every byte string, (a) optional, value, functor call sequence, consumed term values and syntax-error messages and '
                    '(b) with verbose on the complete recovery event log (discarded states, shift of the error token, discarded terms) equal the reference interpreter of the README algorithm')
