"""C10 - source points are the true line and column of each term."""
import vlib, report, kernel, families, common_parse as cp

CPP = r'''#include "hv.h"
#include "rxbuf.h"
using namespace ctpg;
// one call of source_point::update over an arbitrary byte range from an arbitrary (line, column): the inductive step
extern "C" __attribute__((noinline)) void k_update(uint32_t line, uint32_t col, const uint8_t* in, uint32_t n, uint32_t* out)
{
    char b[8]; for (int i = 0; i < 8; i++) b[i] = (char)in[i];
    source_point sp; sp.line = line; sp.column = col;
    hv::sym_buf buf{b, n};
    sp.update(buf.begin(), buf.end());
    out[0] = sp.line; out[1] = sp.column;
}
'''

def kernels(wd):
    return [kernel.Kernel(wd, 'sp_update', CPP,
        protos=[('void', 'k_update', ['uint32_t', 'uint32_t', 'const uint8_t*', 'uint32_t', 'uint32_t*'])],
        inputs=[('LINE', 'uint32_t', 1), ('COL', 'uint32_t', 1), ('IN', 'uint8_t', 8), ('N', 'uint32_t', 1)], outputs=[('OUT', 'uint32_t', 2)],
        assume='N <= 8 && LINE < 0xfffffff0u && COL < 0xfffffff0u',
        call_c='  K(k_update)(LINE, COL, IN, N, OUT);',
        oracle_c='''  uint32_t l = LINE, c = COL;
  for (unsigned i = 0; i < 8; i++) if (i < N) { if (IN[i] == 10) { l++; c = 1; } else c++; }
  CHECK(OUT[0] == l, "a line ends at each newline byte and at nothing else");
  CHECK(OUT[1] == c, "every other byte (tab, CR, NUL, >= 0x80 included) advances the column by one; a newline resets it to 1");''',
        witness='N == 8 && OUT[0] == LINE + 2 && OUT[1] == 3', default_unwind=10, bounds={'update': 10, 'k_update': 10}, meta={'module': 'c10'})]

def replay(r, wd):
    for k in kernels(wd):
        if k.name == r['kernel']:
            k.unit.build(); k.build_native(); return k.run_native('real', r['inputs'])

def run(tier, seed):
    R = report.Run('C10', tier, seed); cases = []
    wd = vlib.workdir('C10')
    T = {g.name: g for g in families.t_sets() + families.g_err() + families.g_dir()}
    if tier == 'quick': plan = [('nlterm', [3], 1, 0), ('abcd', [3], 1, 1), ('er1', [3], 1, 1)]
    else: plan = [(n, [2, 3], 1, 0) for n in ('nlterm', 'kwid', 'eqeq', 'hi')] + [(n, [2, 3], 1, 1) for n in ('nlterm', 'kwid', 'abcd', 'num', 'er1', 'er2', 'etf')] + [('nlterm', [2, 3], 0, 0), ('nlterm', [4], 1, 1), ('er1', [4], 1, 1)]
    for n, Ls, ws, nl in plan:
        cp.run_parse_property('C10', tier, seed, [(T[n], Ls)], ['accept', 'positions', 'messages'], '', ['inputs longer than LEN in the end-to-end queries', 'line / column counters wrapping at 2^32'],
                              ['kernel: one update step from an ARBITRARY (line, column) over an arbitrary range <= 8 bytes (induction over history length)',
                               'end to end: term values handed to functors and all messages carry the reference (line, column); multi-line lexemes, skipped whitespace, skip_newline on/off, positions after error recovery'],
                              ws=ws, nl=nl, validate_cf=False, wit_every=2, finish=False, R=R, defer=cases, tag='p')
    kernel.run_kernels(R, kernels(wd))
    return cp.run_deferred(R, tier, cases,
        'kernel: source_point::update decided for every start position and every byte range <= 8 (inductive step); end to end: one query per (unit, whitespace options, exact input length): '
        'every term value handed to a functor and every message carries the reference 1-based line and column for all byte strings')
