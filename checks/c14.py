"""C14 - semantic values are moved, never duplicated, leaked or reused."""
import families, report, common_parse as cp
from c13 import mixed
def run(tier, seed):
    d = {g.name: g for g in families.g_dir() + families.g_err()}
    R = report.Run('C14', tier, seed); cases = []
    if tier == 'quick': sel = [(d['etf'], [2]), (d['e123'], [3]), (d['nullrun'], [2]), (d['er1'], [2])]
    else: sel = [(d[n], [1, 2, 3]) for n in ('etf', 'e123', 'nullrun', 'lrece', 'rrece', 'mutual', 'er1', 'er2')]
    cp.run_parse_property('C14', tier, seed, sel, ['accept', 'value', 'moves'], '',
        cp.STD_OUTSIDE + ['destruction counts: fixed-size (cvector) stacks require trivially destructible values, and the std::vector-backed stacks need the heap model, which is out of reach (measured: SAT solver out of memory at 2 input bytes)',
                          'term values: term_value(VT v, sp) : value(v) copies by design, so terms carry copyable values'],
        cp.STD_ASSUME + ['nonterminal values are a move-only tracked type: any copy on the path is a compile error of the unit (units compile = no copy); every move-construction / move-assignment from, and every functor argument that is, '
                         'a moved-from or never-assigned object raises a flag; default functors and _eN helpers are in the units'],
        validate_cf=False, wit_every=2, finish=False, R=R, defer=cases, variant='trk')
    # contextual (>>=) rules under context_parse with the move-only value type: the unit must keep compiling (build obligation only - the combination of
    # context forwarding and tracked values does not get a verdict from CBMC, see DESIGN 10.2); a use of the deleted copy constructor is reported as a violation
    import parsecheck, vlib
    wd = vlib.workdir('C14', fresh=False)
    bo = parsecheck.ParseCase(wd, mixed(d['etf']), 2, ['accept'], variant='trkctx', tag='build')
    bo.unit.build(); R.add_unit(bo.unit, desc='build obligation: move-only values through >>= rules under context_parse')
    R.extra['build_obligations'] = 1
    rc = cp.run_deferred(R, tier, cases,
        'one query per (grammar, exact input length), success, failure and recovery paths alike: with move-only tracked nonterminal values, for every byte string no value is used after it has been moved from, '
        'each value reaches at most one functor, and the result equals the reference evaluation (so no value is lost or substituted)')
    return rc
