"""One reduce step of the real driver from an ARBITRARY stack height (inductive idiom): covers inputs of any length, which the exact-length queries cannot."""
import kernel, families, lr1, emit

CAP = 70000

def cpp_for(g):
    return """#include "hv.h"
using namespace ctpg; using namespace ctpg::buffers; using namespace ctpg::ftors;
hv::state hv::hv_S; const void* hv::hv_ctx_addr = nullptr; unsigned hv::hv_ctx_tag = 0; hv::lex_state hv::hv_L;
#define HV_CTX_PARAM hv::ctx_t&
%s
using P = std::remove_const_t<decltype(g::p)>;
// A stack whose height is a plain 64-bit number: only an 8-slot window around the top is materialised (logical index i lives in w[i - base]).
// parse_state is a template over the stack types, so the real reduce() runs unchanged on it; its own index arithmetic is what is checked.
template<typename T> struct win_stack {
    T w[8] = {}; std::size_t base = 0, n = 0;
    struct iterator { win_stack* s; std::size_t i;
        iterator operator-(std::size_t k) const { return iterator{ s, i - k }; }
        bool operator==(const iterator& o) const { return i == o.i; } };
    std::size_t size() const { return n; }
    T* data() { return w - base; }
    iterator end() { return iterator{ this, n }; }
    iterator erase(iterator first, iterator last) { if (last.i == n && first.i <= n) n = first.i; return end(); }
    T& back() { return w[n - 1 - base]; }
    void push_back(const T& v) { w[n - base] = v; ++n; }
    void emplace_back(T&& v) { w[n - base] = std::move(v); ++n; }
    void reserve(std::size_t) {}
    T& at(std::size_t i) { return w[i - base]; }
};
extern "C" __attribute__((noinline)) void k_reduce_step(uint64_t height, uint32_t rule_info_idx, uint32_t below_state, const uint32_t* top, uint32_t* out)
{
    const auto& ri = g::p.gi.rule_infos[rule_info_idx];
    const unsigned n = ri.r_elements;
    hv::reset();
    win_stack<P::value_variant_type> vs; win_stack<size16_t> cs;
    // `height` values and height + 1 states; only the top n entries belong to the handle being reduced
    vs.n = height; vs.base = height - n - 2; cs.n = height + 1; cs.base = height - n - 2;
    vs.at(height - n - 1) = P::value_variant_type(unsigned(0xbad0u)); vs.at(height - n - 2) = P::value_variant_type(unsigned(0xbad1u));   // decoys below the handle
    cs.at(height - n) = (size16_t)below_state;
    for (unsigned k = 0; k < n; ++k) {
        const auto& sym = g::p.gi.right_sides[ri.r_idx][k];
        if (sym.term) vs.at(height - n + k) = P::value_variant_type(term_value<unsigned>(top[k], source_point{ 7, k + 1 }));
        else vs.at(height - n + k) = P::value_variant_type(unsigned(top[k]));
        cs.at(height - n + 1 + k) = (size16_t)(k + 1);
    }
    hv::rec s; s.names = g::p.term_names; s.nnames = (unsigned)P::term_count;
    char b[2] = { 0, 0 }; cstring_buffer<2> buf(b);
    detail::value_reductors<no_type, P::value_variant_type, P::rule_tuple_type, P::rule_count> reductors(g::p.rule_tuple);
    detail::parse_state ps(cs, vs, s, parse_options{}, buf.begin(), buf.end(), reductors);
    g::p.reduce(no_type{}, ps, (size16_t)rule_info_idx);
    out[0] = (uint32_t)(vs.n - (height - n)); out[1] = (uint32_t)(cs.n - (height - n));
    out[2] = ri.r_idx; out[3] = n;
    const auto& res = vs.at(height - n);
    out[4] = (uint32_t)res.index(); out[5] = res.index() == 2 ? std::get<unsigned>(res) : 0u;
    const auto& ge = g::p.parse_table[below_state][ri.l_idx]; const bool isgoto = ge.kind == P::parse_table_entry_kind::shift;
    out[6] = isgoto ? cs.at(height - n + 1) : 0u; out[7] = isgoto ? ge.arg : 0u;   // for a pair (state, left side) that is no LR configuration the cell is an error cell and its arg unspecified
    out[8] = hv::hv_S.nred; out[9] = hv::hv_S.nred ? hv::hv_S.red[0] : 0xffffu; out[10] = hv::hv_S.nterm; out[11] = hv::hv_S.flags;
    out[12] = ri.l_idx;
}
""" % emit.grammar_cpp(g)

def kernels(wd, names=('etf',)):
    G = {g.name: g for g in families.g_dir()}
    ks = []
    for nm in names:
        g = G[nm]; lr = lr1.LR1(g)
        ref = lr1.emit_tables(g, lr)
        ks.append(kernel.Kernel(wd, 'reduce_step_' + nm, cpp_for(g),
            protos=[('void', 'k_reduce_step', ['uint64_t', 'uint32_t', 'uint32_t', 'const uint32_t*', 'uint32_t*'])],
            inputs=[('H', 'uint64_t', 1), ('RI', 'uint32_t', 1), ('BELOW', 'uint32_t', 1), ('TOP', 'uint32_t', 4)], outputs=[('OUT', 'uint32_t', 13)],
            assume='TOP[0] < 16 && TOP[1] < 16 && TOP[2] < 16 && TOP[3] < 16 && RI < REF_NRULES && BELOW < REF_NSTATES && H >= REF_MAXRHS + 2 && H < (1ULL << 40)', ref_c=ref,
            call_c='  K(k_reduce_step)(H, RI, BELOW, TOP, OUT);',
            oracle_c='''  unsigned r = OUT[2], n = OUT[3];
  CHECK(exc_pending == 0, "reducing a well-typed handle never throws, at any stack height");
  if (!exc_pending && r < REF_NRULES) {
    CHECK(n == REF_rule_len[r], "the rule's arity");
    CHECK(OUT[0] == 1 && OUT[1] == 2, "reduce pops exactly the handle and pushes one value and one state");
    CHECK(OUT[6] == OUT[7], "the state pushed is the goto of the state below the handle on the rule's left side");
    CHECK(OUT[4] == 2, "the handle is replaced by the left-side value");
    unsigned f = REF_rule_f[r]; uint32_t v;
    if (f == RF_HASH) { v = 7919u * (r + 1); for (unsigned k = 0; k < REF_MAXRHS; k++) if (k < n) v = v * 31u + TOP[k]; CHECK(OUT[8] == 1 && OUT[9] == r, "the rule's functor is called exactly once"); }
    else if (f == RF_DEFAULT) { v = n ? TOP[0] : 0; CHECK(OUT[8] == 0, "no functor for a rule without one"); }
    else { v = TOP[f - RF_E1]; CHECK(OUT[8] == 0, "helper functor only"); }
    CHECK(OUT[5] == v, "the functor receives exactly the values of the handle (the top n stack slots), in right-side order, at ANY stack height");
    CHECK((OUT[11] & 7u) == 0, "MACHINERY-free logs");
  }''',
            witness='H > 65540 && OUT[8] == 1 && OUT[0] == 1', default_unwind=6, bounds={'k_reduce_step': g.max_rhs + 2, 'erase': g.max_rhs + 3},
            mode='functional', meta={'module': 'c02_step', 'grammar': nm, 'max_height': '2^40'}, timeout=900, mem_gb=20))
    return ks

def replay(r, wd):
    for k in kernels(wd):
        if k.name == r['kernel']:
            k.unit.build(); k.build_native(); return k.run_native('real', r['inputs'])
