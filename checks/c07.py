"""C07 - compile-time and run-time parsing agree, for every buffer kind."""
import os
import families, report, vlib, emit, parsecheck, lr1, kernel, buf_kernel, common_parse as cp

def run(tier, seed):
    d = {g.name: g for g in families.g_dir() + families.g_err() + families.t_sets()}
    R = report.Run('C07', tier, seed); cases = []
    if tier == 'quick': plan = [('etf', [2], 1, 1), ('nrun3', [2], 0, 0), ('eqeq', [2], 1, 0)]
    else: plan = [(n, [1, 2, 3], 1, 1) for n in ('etf', 'lalr', 'nrun3', 'mutual', 'rrece', 'pal', 'er2', 'er4', 'eqeq', 'abcd', 'num')]
    outside = ['the compilers\' constant evaluators are not code in /repo and cannot be encoded: the solver decides UB-freedom of the whole parse path for every input <= LEN, which by [expr.const] implies the '
               'compile-time parse is a valid constant expression with the same (deterministic) result', 'evaluator step/depth limits; MSVC',
               'string_buffer / string_view_buffer use std::vector-backed stacks: the heap model is out of reach (a 2-byte query exhausted 20 GB in the SAT solver); buffer independence is claimed for cstring_buffer vs a user buffer that is a slice of larger storage (fixed-size stacks)',
               'constexpr-constructed vs run-time-constructed parser object (executing the constructor inside CBMC is out of reach, DESIGN 2.2)']
    assume = ['(a) solver: no undefined behaviour on the cstring_buffer parse path for any byte string of the stated length (accepted, syntactically wrong and lexically wrong alike)',
              '(b) concrete confirmation on solver-chosen inputs of each class: g++ and clang++ must accept the constexpr parse and its result must equal the run-time result']
    # buffer kinds hand out the same slices (get_view kernel: cstring_buffer vs string_view_buffer)
    kernel.run_kernels(R, buf_kernel.kernels(vlib.workdir('C07', fresh=False)))
    for n, Ls, ws, nl in plan:
        cp.run_parse_property('C07', tier, seed, [(d[n], Ls)], ['accept'], '', outside, assume, ws=ws, nl=nl, validate_cf=False, wit_every=1000, finish=False, R=R, defer=cases, mode='safety', tag='c')
    # (c) buffer kind: the same text in a user buffer that is a slice of larger storage (what lies behind end() is solver-chosen, not NUL): result, messages and positions
    #     must equal the reference, and nothing at or beyond end() may be read
    usel = [(d['etf'], [2]), (d['kwid'], [2])] if tier == 'quick' else [(d[n], [1, 2, 3]) for n in ('etf', 'lalr', 'er1', 'kwid', 'eqeq', 'num')]
    ucases = []
    cp.run_parse_property('C07', tier, seed, usel, ['accept', 'value', 'messages', 'positions', 'inbuf'], '', [], ['(c) user buffer = slice of larger storage with fixed-size stacks (stack-type traits specialised in the harness like cstring_buffer\'s)'],
                          ws=1, nl=1, validate_cf=False, wit_every=2, finish=False, R=R, defer=ucases, variant='slice', tag='u')
    # three witness classes per case: accepted / syntax error / lexical error
    classes = [('acc', 'OUT[O_OK] == 1 && R.ok'), ('syn', '!R.ok && R.nmsg == 1 && R.msg[0].kind == M_SYNTAX_ERROR && OUT[O_NMSG] == 1'), ('lex', '!R.ok && R.nmsg == 1 && R.msg[0].kind == M_UNEXPECTED_CHAR && OUT[O_NMSG] == 1')]
    vlib.build_units([c.unit for c in cases])
    wq = []
    for c in cases:
        if not c.unit.ok: continue
        for tag, expr in classes:
            if tag == 'acc' and not c.b['accepted']: continue
            if tag == 'syn' and not getattr(c.g, 'tkinds', None) and not c.b.get('syn_only', 1): continue   # e.g. nrun3: every term sequence is in the language
            q = c.query(witness=True, witness_expr=expr, wtag=tag, timeout=1200, mem_gb=12); q.mode = 'functional'; q.meta['wclass'] = tag
            wq.append(q)
    wres = vlib.run_queries(wq)
    nprobe = 0
    for r in wres:
        R.record(r); c = r['meta']['case']
        if r['status'] != 'sat':
            R.inconclusive.append('witness %s: %s %s' % (r['id'], r['status'], r['reason'])); continue
        inp = r['inputs'].get('IN', [])
        if isinstance(inp, int): inp = [inp]
        inp = (inp + [0] * c.L)[:c.L]
        if not c.native: c.build_native()
        nat = c.run_native('real', inp); R.replays += 1
        rt_ok = nat and nat['out'] and nat['out'].split()[0] == '1'
        src = os.path.join(c.wd, 'cx_%s.cpp' % r['id'])
        with open(src, 'w') as f: f.write(emit.constexpr_probe_cpp(c.g, inp, ws=c.ws, nl=c.nl))
        for cc, extra in (('clang++-14', ['-fconstexpr-steps=100000000']), ('g++', ['-fconstexpr-ops-limit=1000000000', '-fconstexpr-loop-limit=10000000'])):
            exe = src + '.' + cc + '.exe'
            rc, out, w, _ = vlib.run([cc, '-std=c++17', '-I' + os.path.join(vlib.REPO, 'include')] + extra + [src, '-o', exe], timeout=900, mem_gb=16)
            nprobe += 1
            robj = {'query': r['id'], 'unit': c.g.name, 'grammar': c.g.name, 'L': c.L, 'opts': [c.ws, c.nl, 0], 'input_hex': vlib.hexs(inp), 'compiler': cc, 'kind': 'constexpr', 'asserts': ['accept']}
            if rc != 0:
                note = [l.strip() for l in out.split('\n') if 'note:' in l or 'error:' in l][:2]
                R.violation('constexpr parse of input %s (%s, unit %s) is not a constant expression for %s: %s' % (vlib.hexs(inp), r['meta']['wclass'], c.g.name, cc, ' | '.join(note)[:240]), robj); continue
            rc2, out2, w, _ = vlib.run([exe], timeout=20)
            ct_ok = (rc2 == 0)
            if ct_ok != bool(rt_ok):
                R.violation('compile-time (%s) and run-time results differ on input %s (unit %s): constexpr has_value=%s, run time has_value=%s' % (cc, vlib.hexs(inp), c.g.name, ct_ok, rt_ok), robj)
    R.extra['constexpr_probes_compiled'] = nprobe
    return cp.run_deferred(R, tier, cases + ucases,
        'one safety-mode query per (unit, exact input length): every byte string is decided free of undefined behaviour on the cstring_buffer parse path; plus, per unit, three solver-chosen inputs '
        '(accepted, syntactically wrong, lexically wrong) whose constexpr parse must be accepted by g++ and clang++ with the run-time result',
        timeout=1500 if tier == 'quick' else 3600, mem_gb=16 if tier == 'quick' else 30)
