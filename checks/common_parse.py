"""shared driver for the properties decided with the token-level parse harness"""
import vlib, report, parsecheck, families, lr1

def witness_for(g, lr, L, verbose=False, want='accept'):
    b = lr1.bounds(g, lr, L, verbose=verbose)
    if want == 'recover' and b['recovered']: return 'OUT[O_OK] == 1 && R.ok && R.nmsg >= 1'
    if b['accepted']: return 'OUT[O_OK] == 1 && R.ok' + (' && R.nred >= 1' if b['acc_nred'] else '')   # some accepted inputs involve no recorded (hash-functor) reduction at all, e.g. tconv 'a'
    return 'OUT[O_NMSG] >= 1 && !R.ok'

def run_parse_property(pid, tier, seed, sel, asserts, rule, outside, assumptions, verbose=0, ws=0, nl=0, want='accept', timeout=None, mem_gb=None,
                       validate_cf=True, wit_every=3, extra_body='', tag='', finish=True, R=None, defer=None, variant='plain', ctxkind=0, mode='functional'):
    """defer: a list; when given the cases are appended to it instead of being run (run them later with run_deferred)"""
    R = R or report.Run(pid, tier, seed)
    wd = vlib.workdir(pid, fresh=not bool(tag) and not defer)
    cases = []
    for g, Ls in sel:
        lr = lr1.LR1(g)
        if lr.has_rr: R.inconclusive.append('unit %s has an R/R conflict' % g.name); continue
        if validate_cf and lr.conflict_free:
            ok, toks, a, b, n = lr1.validate(g, lr, 5 if (g.nt ** 5) < 5000 else 4)
            if not ok: R.inconclusive.append('reference LR(1) disagrees with Earley on %s for %r' % (g.name, toks))
            R.extra.setdefault('oracle_validation', {})[g.name] = {'strings_compared_with_earley': n}
        for L in Ls:
            cases.append(parsecheck.ParseCase(wd, g, L, asserts, ws=ws, nl=nl, verbose=verbose, lr=lr, tag=tag, extra_body=extra_body, variant=variant, ctxkind=ctxkind, mode=mode,
                                              witness=witness_for(g, lr, L, bool(verbose), want)))
    wit = [c for i, c in enumerate(cases) if tier == 'thorough' or i % wit_every == 0]
    R.outside += [x for x in outside if x not in R.outside]; R.assumptions += [x for x in assumptions if x not in R.assumptions]
    if defer is not None:
        for c in cases: c.want_witness = c in wit
        defer.extend(cases); return R
    report.run_parse_cases(R, cases, witness_for=wit, timeout=timeout or (1800 if tier == 'quick' else 3600), mem_gb=mem_gb or (12 if tier == 'quick' else 24))
    R.outside += [x for x in outside if x not in R.outside]; R.assumptions += [x for x in assumptions if x not in R.assumptions]
    if finish: return R.finish(rule)
    return R

STD_OUTSIDE = ['grammars outside the generated families', 'unit nrun4 in the thorough all-family selections of C01/C02/C09: the recorded stack-capacity defect D5 manifests there and is owned by C06/C12 (known_findings.json)', 'inputs longer than the stated LEN', 'token level: custom one-byte lexer (the generated lexer is covered by C03/C04)']
STD_ASSUME = ['token-level custom lexer maps byte a+k to term k', 'program dimension is a generated finite family']

def run_deferred(R, tier, cases, rule, timeout=None, mem_gb=None):
    report.run_parse_cases(R, cases, witness_for=[c for c in cases if getattr(c, 'want_witness', False)], timeout=timeout or (1800 if tier == 'quick' else 3600), mem_gb=mem_gb or (12 if tier == 'quick' else 24))
    return R.finish(rule)
