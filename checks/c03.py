"""C03 - a regex term matches exactly the language of its pattern."""
import os, json
import vlib, report, rxcheck, rx
from concurrent.futures import ThreadPoolExecutor

def load_recorded():
    p = os.path.join(vlib.VERIF, 'known_findings_c03.json')
    if not os.path.exists(p): return {}
    return {k['pattern']: k for k in json.load(open(p))['findings']}

def rec_dfa(k):
    """recorded (defective) language of the real automaton for a listed pattern"""
    r = k['recorded']; cmap = []
    for lo, hi, c in r['cls_ranges']: cmap += [c] * (hi - lo + 1)
    tr = [[row[cmap[c]] for c in range(256)] for row in r['tr']]
    return rx.from_table(tr, [x == '1' for x in r['acc']])

def run(tier, seed, pid='C03', patterns=None):
    R = report.Run(pid, tier, seed)
    wd = vlib.workdir(pid)
    pats = patterns or rx.family(tier, seed)
    cap = 6 if tier == 'quick' else 10
    B = 6
    batches = [rxcheck.RxBatch(wd, i // B, pats[i:i+B], cap, i) for i in range(0, len(pats), B)]
    vlib.build_units([b.unit for b in batches])
    for b in batches: R.add_unit(b.unit, desc='patterns ' + ' , '.join(c.pat for c in b.cases))
    cases = [c for b in batches if b.unit.ok for c in b.cases]
    rec = load_recorded()
    # translation validation on a sample of patterns (every pattern in thorough would double the run time; the translator is the same code)
    tvc = cases[::(3 if tier == 'quick' else 12)]
    with ThreadPoolExecutor(max_workers=vlib.NCPU) as ex: tvs = list(ex.map(lambda c: rxcheck.translation_validation(c, seed), tvc))
    for c, t in zip(tvc, tvs):
        R.tv_runs += t['n']
        if not t['ok']: R.inconclusive.append('translation validation: ' + t['why'])
    qs = []
    for i, c in enumerate(cases):
        qs.append(c.query())
        if c.pat in rec: qs.append(c.query(tag='_rec', oracle_dfa=rec_dfa(rec[c.pat])))
        else: qs.append(c.table_query())
        if i % (4 if tier == 'quick' else 10) == 0: qs.append(c.query(witness=True))
    results = vlib.run_queries(qs)
    by = {}
    for r in results:
        R.record(r); by[r['id']] = r
    ncomplete = 0
    for c in cases:
        r = by['q_rx%d' % c.k]; rr = by.get('q_rx%d_rec' % c.k); w = by.get('q_rx%d_wit' % c.k)
        tq = by.get('q_rx%d_tab' % c.k)
        if tq is not None:
            if tq['status'] == 'unsat': c.complete = True; c.complete_how = 'table'
            elif tq['status'] == 'inconclusive': R.inconclusive.append('%s (%s): %s' % (tq['id'], c.pat, tq['reason']))
            elif r['status'] == 'unsat':
                # the table differs from the reference although no string <= LMAX shows it: find the shortest distinguishing string from a native extraction and replay it
                import sys; sys.path.insert(0, os.path.join(vlib.VERIF, 'tools'))
                import rx_extract
                t, e = rx_extract.extract([c.pat], wd, 'tabrep%d' % c.k)
                w = rx.equivalent(rx_extract.real_dfa(t[0]), c.ref) if t else None
                if w is not None:
                    if not c.batch.native.get(c.k): c.batch.build_native_for(c, 'real')
                    R.violation('pattern %r: the matcher\'s automaton is not equivalent to the pattern\'s language (table-level check, state %s byte %s); shortest distinguishing subject %s' % (
                                c.pat, tq['inputs'].get('R'), tq['inputs'].get('C'), vlib.hexs(w)), {'query': tq['id'], 'kind': 'rx', 'pattern': c.pat, 'LMAX': max(c.lmax, len(w)), 'input_hex': vlib.hexs(w)})
                else: R.inconclusive.append('%s (%s): table-level check fails (%s) but the native automaton is equivalent to the reference' % (tq['id'], c.pat, '; '.join(f['desc'] for f in tq['failed'])[:160]))
        if c.complete: ncomplete += 1
        if w is not None and w['status'] != 'sat': R.inconclusive.append('witness twin for pattern %s not violated (%s)' % (c.pat, w['status']))
        if r['status'] == 'unsat': continue
        if r['status'] == 'inconclusive': R.inconclusive.append('%s (%s): %s' % (r['id'], c.pat, r['reason'])); continue
        # sat: replay natively
        inp = (r['inputs'].get('IN') or [])[:(r['inputs'].get('N') or 0)]
        props, unwind, mach, other = report.classify_failed(r)
        if not c.batch.native.get(c.k): c.batch.build_native_for(c, 'real')
        rep = c.run_native(inp); R.replays += 1
        desc = '; '.join(sorted(set(f['desc'] for f in r['failed'])))[:240]
        if not rep or rep['verdict'] not in ('FAIL', 'CRASH'):
            R.inconclusive.append('%s pattern %s: counterexample %s (%s) does not reproduce natively' % (r['id'], c.pat, vlib.hexs(inp), desc)); continue
        if rr is not None and rr['status'] == 'unsat':
            R.known_finding({'what': 'pattern %s: %s' % (c.pat, rec[c.pat]['what'])}); continue
        if rr is not None and rr['status'] == 'inconclusive':
            R.inconclusive.append('%s (%s): %s' % (rr['id'], c.pat, rr['reason'])); continue
        R.violation('pattern %r, subject %s: %s (reproduces natively: %s)%s' % (c.pat, vlib.hexs(inp), desc, rep['why'][:100],
                    '; the pattern is a listed finding but the matcher no longer behaves as recorded' if rr is not None else ''),
                    {'query': r['id'], 'kind': 'rx', 'pattern': c.pat, 'LMAX': c.lmax, 'input_hex': vlib.hexs(inp), 'failed': r['failed'][:6], 'native': rep})
    R.extra['patterns'] = len(cases); R.extra['patterns_complete_for_all_string_lengths'] = ncomplete; R.extra['patterns_complete_by_table_equivalence'] = sum(1 for c in cases if getattr(c, 'complete_how', '') == 'table'); R.extra['string_bound'] = cap
    R.samples = [{'pattern': c.pat, 'LMAX': c.lmax, 'ref_states': c.ref.n, 'complete': c.complete} for c in cases[:8]]
    R.outside = ['patterns outside the generated family (symbolic patterns cannot be pushed through dfa_builder::merge, DESIGN 2.2)', 'subject strings longer than LMAX where N*M exceeds it']
    R.assumptions = ['user buffer with explicit symbolic length over a char array', 'reference: Thompson NFA -> subset construction -> minimal DFA over all 256 byte values, from the README table']
    return R.finish('one query per pattern: every subject string over all 256 byte values and every length <= LMAX is decided against the reference minimal DFA; '
                    'a pattern is complete when (N+1)(M+1)-1 <= LMAX (product-automaton bound on a shortest disagreement)')
