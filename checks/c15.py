"""C15 - a parser object is immutable: parses are independent and thread-safe."""
import os, re
import families, report, vlib, rxcheck, common_parse as cp
from c13 import mixed

def run(tier, seed):
    d = {g.name: g for g in families.g_dir() + families.g_err() + families.t_sets()}
    R = report.Run('C15', tier, seed); cases = []
    Ls = [2] if tier == 'quick' else [1, 2, 3]
    outside = ['schedules are not explored: the solver decides the frame condition (no call writes any shared object) and the history clause; non-interference of concurrent calls follows on paper '
               '(calls that only read shared memory are data-race-free and each equals its isolated run)', 'user functors / contexts / streams with their own shared state',
               'inputs longer than LEN']
    assume = ['every store / memcpy / memset of the translated code whose target is not a local is instrumented: direct stores to a module global are assertion failures, stores through pointers assert '
              '!same_object(p, G) for every module global G (parser constant, regex_parser_object, c_names, string tables); harness state (namespace hv) is exempt',
              'function-local statics would appear as __cxa_guard_* symbols in the IR: checked absent per unit']
    A = ['accept', 'value', 'messages']
    # parse (token level and generated lexer), context_parse, and a call after another call on the same object
    cp.run_parse_property('C15', tier, seed, [(d['etf'], Ls), (d['er1'], Ls)], A, '', outside, assume, ws=1, nl=1, validate_cf=False, wit_every=2, finish=False, R=R, defer=cases, mode='writeset', tag='w')
    cp.run_parse_property('C15', tier, seed, [(d['kwid'], Ls)], A, '', outside, assume, ws=1, nl=1, validate_cf=False, wit_every=2, finish=False, R=R, defer=cases, mode='writeset', tag='w')
    cp.run_parse_property('C15', tier, seed, [(mixed(d['etf']), Ls)], ['accept', 'value', 'ctx_rw'], '', outside, assume, validate_cf=False, wit_every=2, finish=False, R=R, defer=cases, mode='writeset', tag='w', variant='ctx', ctxkind=0)
    cp.run_parse_property('C15', tier, seed, [(d['er1'], Ls), (d['lrece'], Ls)], A + ['dual_hist'], '', outside, assume, ws=1, nl=1, validate_cf=False, wit_every=2, finish=False, R=R, defer=cases, mode='writeset', tag='w', variant='hist')
    # the standalone regex matcher and write_diag_str: write-set only
    wd = vlib.workdir('C15', fresh=False)
    b = rxcheck.RxBatch(wd, 70, ['a(b|c)*d', '[0-9]+'], 3, 700)
    b.unit.ir2c_flags = ['--writeset', '--ws-allow=_ZN2hv|exc_pending']
    vlib.build_units([b.unit]); R.add_unit(b.unit, desc='regex::expr::match write set')
    if b.unit.ok:
        import parsecheck
        wsh = os.path.join(wd, 'ws_rxb70.h'); open(wsh, 'w').write(parsecheck.writeset_header(b.unit))
        qs = []
        for c in b.cases:
            q = c.query(tag='_ws'); q.defines.append('WS_HEADER="ws_rxb70.h"'); q.harness_text = q.harness_text.replace('#include "rt.h"', '#include "rt.h"\n#include WS_HEADER'); qs.append(q)
        for r in vlib.run_queries(qs):
            R.record(r)
            if r['status'] == 'inconclusive': R.inconclusive.append('%s: %s' % (r['id'], r['reason']))
            elif r['status'] == 'sat':
                ws = [f for f in r['failed'] if 'WRITESET' in f['desc']]
                if ws: R.violation('regex::expr::match writes shared state: %s' % ws[0]['desc'], {'query': r['id'], 'kind': 'rx', 'pattern': r['meta']['pattern'], 'LMAX': 3, 'input_hex': vlib.hexs((r['inputs'].get('IN') or [])[:(r['inputs'].get('N') or 0)])})
    # heap-backed stacks (string_buffer, string_view_buffer, user buffers -> std::vector): the solver gets no verdict on this instantiation (heap model, DESIGN 10.2),
    # so only the STATIC part of the frame condition is checked: the translated parse path of a user-buffer instantiation must contain no store whose address is a
    # module-level object (decided syntactically on the IR by the translator, not by the solver; labelled as such)
    import parsecheck, emit
    g0 = d['etf']
    cpp = emit.parse_wrapper_cpp(g0).replace('#include "hv.h"', '#include "hv.h"\n#include "rxbuf.h"').replace("auto r = g::p.parse(o, cstring_buffer<LEN + 1>(b), s);", "hv::sym_buf ub{b, LEN};\n    auto r = g::p.parse(o, ub, s);")
    hb = parsecheck.ParseCase(wd, g0, 2, ['accept'], mode='writeset', wrapper=cpp, tag='heap')
    hb.unit.build(); R.add_unit(hb.unit, desc='static frame check: user buffer with std::vector-backed stacks')
    if hb.unit.ok:
        sites = []
        sm = hb.unit.info.get('srcmap') or {}
        for n, ln in enumerate(open(hb.unit.c), 1):
            m = re.search(r'WRITESET: (?:store to|memcpy into) module global (g_\w+)', ln)
            if m: sites.append((m.group(1), sm.get(str(n), '?')))
        R.extra['static_frame_check_heap_instantiation'] = {'direct_stores_to_module_globals': len(sites)}
        if sites:
            R.violation('the parse path for heap-backed buffers stores into module-level object(s) %s (static frame check on the IR of the std::vector-backed instantiation; not solver-decided: shared mutable state across calls / threads)' % (
                        ', '.join(sorted(set('%s at %s' % s for s in sites)))[:400]), {'query': 'static_frame_heap', 'kind': 'build', 'unit': hb.unit.name, 'input_hex': ''})
    # std::ostream instantiation (messages, verbose trace, write_diag_str through a real ostream): iostream code cannot be translated, so again only the STATIC part of the
    # frame condition: no function of namespace ctpg may refer to a mutable module-level object (namespace-scope variable, function-local static, ...).  Syntactic, on the
    # unoptimised IR; not solver-decided and labelled as such.
    os_cpp = ('#include "hv.h"\n#include <sstream>\n#include <string>\nusing namespace ctpg; using namespace ctpg::buffers; using namespace ctpg::ftors;\n'
              'hv::state hv::hv_S; const void* hv::hv_ctx_addr = nullptr; unsigned hv::hv_ctx_tag = 0; hv::lex_state hv::hv_L;\n#define HV_CTX_PARAM hv::ctx_t&\n' + emit.grammar_cpp(g0) +
              '\nextern "C" unsigned k_os(const char* txt, std::ostream& os) {\n    parse_options o; o.set_verbose(true).set_skip_whitespace(true);\n'
              '    auto r = g::p.parse(o, string_buffer(std::string(txt)), os);\n    auto r2 = g::p.parse(o, cstring_buffer("ab"), os);\n    g::p.write_diag_str(os);\n'
              '    return (r.has_value() ? *r : 0u) + (r2.has_value() ? 1u : 0u);\n}\n')
    src = os.path.join(wd, 'os_frame.cpp'); ll = os.path.join(wd, 'os_frame.ll')
    with open(src, 'w') as f: f.write(os_cpp)
    rcc, out, w, _ = vlib.run(['clang++-14', '-std=c++17', '-O0', '-S', '-emit-llvm', '-I' + os.path.join(vlib.REPO, 'include'), '-I' + vlib.HARNESS, '-Wno-everything', src, '-o', ll], timeout=600, mem_gb=8)
    if rcc != 0: R.inconclusive.append('std::ostream instantiation does not build: %s' % out[:300])
    else:
        mut = set(); sites = []; cur = None
        for ln in open(ll):
            m = re.match(r'(@[\w.$]+|@"[^"]+") = (?!external)(?:[\w() ]+ )?global ', ln)
            if m and ' constant ' not in ln.split('=')[1][:80]: mut.add(m.group(1)); continue
            m = re.match(r'define .*?(@[\w.$]+|@"[^"]+")\(', ln)
            if m: cur = m.group(1); continue
            if ln.startswith('}'): cur = None; continue
            if cur and '4ctpg' in cur:
                for g_ in re.findall(r'@[\w.$]+|@"[^"]+"', ln):
                    if g_ in mut and '2hv' not in g_ and '_ZGV' not in g_ and 'ioinit' not in g_: sites.append((g_, cur))
        R.extra['static_frame_check_ostream_instantiation'] = {'mutable_module_objects': len(mut), 'references_from_ctpg_functions': len(sites)}
        if sites:
            R.violation('functions of namespace ctpg refer to mutable module-level object(s): %s (static frame check on the IR of the std::ostream instantiation; not solver-decided: shared mutable state across calls / threads)' % (
                        ', '.join(sorted(set('%s in %s' % (a_[:80], b_[:80]) for a_, b_ in sites)))[:400]), {'query': 'static_frame_ostream', 'kind': 'build', 'unit': 'os_frame', 'input_hex': ''})
    rc = cp.run_deferred(R, tier, cases,
        'one query per (unit, entry point in {parse, context_parse, parse after an earlier parse, regex::expr::match}, exact input length): for every byte string no store of the real code targets any '
        'module-level object (frame condition), and the result of a call after an earlier call on the same parser object equals the reference of the isolated call',
        timeout=1500 if tier == 'quick' else 3600, mem_gb=16 if tier == 'quick' else 30)
    return rc
