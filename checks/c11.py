"""C11 - diagnostics report every conflict and describe the real table."""
import vlib, report, kernel, families, lr1, emit

def cpp_for(g):
    return '''#include "hv.h"
#include "rxbuf.h"
using namespace ctpg; using namespace ctpg::buffers; using namespace ctpg::ftors;
hv::state hv::hv_S; const void* hv::hv_ctx_addr = nullptr; unsigned hv::hv_ctx_tag = 0; hv::lex_state hv::hv_L;
#define HV_CTX_PARAM hv::ctx_t&
%s
using P = std::remove_const_t<decltype(g::p)>;
// the diagnostic text of one state of the REAL table, for a solver-chosen (state, term); plus the state's item set and the raw cell
extern "C" __attribute__((noinline)) void k_diag(uint32_t s, uint32_t t, uint32_t* out)
{
    hv::diagrec r; r.names = g::p.term_names; r.nnames = (unsigned)P::term_count; r.target = t;
    g::p.write_state_diag_str(r, (size16_t)s);
    out[0] = r.kind; out[1] = r.arg; out[2] = r.nlines; out[3] = g::p.state_count;
    const auto& e = g::p.parse_table[s][P::nterm_count + t];
    out[4] = (uint32_t)e.kind; out[5] = (e.kind == P::parse_table_entry_kind::error) ? 0u : e.arg; out[6] = e.has_sr_conflict;   // arg of an error cell is unspecified
    for (unsigned w = 0; w < NWORDS; ++w) { out[8 + 2 * w] = (uint32_t)g::p.states[s].data[w]; out[9 + 2 * w] = (uint32_t)(g::p.states[s].data[w] >> 32); }
}
// item set of a state (for mapping shift targets)
extern "C" __attribute__((noinline)) void k_bits(uint32_t s, uint32_t* out)
{
    for (unsigned w = 0; w < NWORDS; ++w) { out[2 * w] = (uint32_t)g::p.states[s].data[w]; out[2 * w + 1] = (uint32_t)(g::p.states[s].data[w] >> 32); }
}
''' % emit.grammar_cpp(g)

def ref_tables(g, lr):
    """reference: per state the item set in the library's situation numbering, per (state, term) the expected diagnostic line"""
    # rule_infos are the rules stably sorted by left side (fake root last)
    order = sorted(range(len(lr.R)), key=lambda r: lr.R[r][0])
    pos = {r: i for i, r in enumerate(order)}
    ssz = g.max_rhs + 1; tc = g.term_count
    nbits = len(lr.R) * ssz * tc; nw = (nbits + 63) // 64
    rows = []
    for st in lr.states:
        words = [0] * nw
        for (r, d, la) in st:
            i = pos[r] * ssz * tc + d * tc + la; words[i // 64] |= 1 << (i % 64)
        rows.append(words)
    conf = {(c[0], c[1]): c for c in lr.conflicts}
    code = []; arg = []
    for i in range(len(lr.states)):
        rc = []; ra = []
        for t in range(tc):
            a = lr.action[i][t]; c = conf.get((i, t))
            if c and c[2] == 'rr': rc.append(6); ra.append(0)
            elif c and c[2] == 'sr': rc.append(4 if c[3][1] == 'reduce' else 5); ra.append(c[3][0])
            elif a[0] == 's': rc.append(1); ra.append(a[1])
            elif a[0] == 'r': rc.append(2); ra.append(a[1])
            elif a[0] == 'acc': rc.append(3); ra.append(0)
            else: rc.append(0); ra.append(0)
        code.append(rc); arg.append(ra)
    ns = len(lr.states)
    o = ['#define NS %d' % ns, '#define NLIVE %d' % len(lr.live), '#define NWORDS %d' % nw, '#define NTERMS %d' % tc]
    o.append('static const uint8_t RLIVE[%d] = {%s};' % (ns, ','.join('1' if i in lr.live else '0' for i in range(ns))))
    o.append('static const uint32_t RBITS[%d][%d] = {%s};' % (ns, 2 * nw, ','.join('{%s}' % ','.join('%uu' % x for w in ws for x in (w & 0xffffffff, w >> 32)) for ws in rows)))
    o.append('static const uint8_t RCODE[%d][%d] = {%s};' % (ns, tc, ','.join('{%s}' % ','.join(map(str, r)) for r in code)))
    o.append('static const uint16_t RARG[%d][%d] = {%s};' % (ns, tc, ','.join('{%s}' % ','.join(map(str, r)) for r in arg)))
    return '\n'.join(o) + '\n', nw, ns

SRR = lr1.Grammar('srr', ['S', 'C', 'A', 'B'], ['x', 't'], 'S', [('S', ['C']), ('S', ['A', 't']), ('S', ['B', 't']), ('C', ['x', 't']), ('A', ['x']), ('B', ['x'])],
                  note='a shift and two reductions compete for the same cell: the R/R conflict must still be reported')
RR = lr1.Grammar('rr1', ['op', 'sop'], ['!', '*', '+'], 'op', [('sop', ['!']), ('op', ['!']), ('op', ['*']), ('op', ['+']), ('op', ['sop'])], note='README reduce/reduce example')

def kernels(wd, tier='quick'):
    P = {g.name: g for g in families.g_prec() + families.g_dir() + families.g_err()}
    names = ['p_ll', 'p_rr', 'lalr', 'p_else', 'p_perm', 'p_perm2', 'ersr'] if tier == 'quick' else ['p_ll', 'p_rr', 'p_lr', 'p_eq', 'p_eqr', 'p_none', 'p_def', 'p_neg', 'p_expl', 'p_else', 'p_perm', 'p_perm2', 'interl', 'ersr', 'er1', 'er2', 'lalr', 'etf', 'd2', 'nullrun']
    gs = [P[n] for n in names] + [RR, SRR]
    ks = []
    for g in gs:
        lr = lr1.LR1(g)
        tabs, nw, ns = ref_tables(g, lr)
        ref = tabs + '''
static int find_ref_state(const uint32_t* bits) {   /* the reference state with the same LR(1) item set, -1 if none */
  for (int i = 0; i < NS; i++) { int eq = 1; for (int w = 0; w < 2 * NWORDS; w++) if (RBITS[i][w] != bits[w]) eq = 0; if (eq) return i; }
  return -1;
}
'''
        k = kernel.Kernel(wd, 'diag_' + g.name, cpp_for(g),
            protos=[('void', 'k_diag', ['uint32_t', 'uint32_t', 'uint32_t*']), ('void', 'k_bits', ['uint32_t', 'uint32_t*'])],
            inputs=[('S', 'uint32_t', 1), ('T', 'uint32_t', 1)], outputs=[('OUT', 'uint32_t', 8 + 2 * nw), ('TB', 'uint32_t', 2 * nw)],
            assume='S < %d && T < NTERMS' % len(lr.live), ref_c=ref, defines=['NWORDS=%d' % nw],
            call_c='  K(k_diag)(S, T, OUT);\n  if (OUT[0] == 1 && OUT[1] < OUT[3]) K(k_bits)(OUT[1], TB);',
            oracle_c='''  CHECK(exc_pending == 0, "write_diag_str must not throw");
  CHECK(OUT[3] == NLIVE, "the table has exactly the canonical LR(1) states the parser can reach after conflict resolution");
  int rs = find_ref_state(OUT + 8);
  CHECK(rs >= 0 && RLIVE[rs], "every state's printed item set is a reachable LR(1) item set of the grammar");
  if (rs >= 0) {
    unsigned code = RCODE[rs][T], arg = RARG[rs][T];
    CHECK(OUT[2] <= 1, "at most one action line per state and term");
    CHECK((OUT[0] == 4 || OUT[0] == 5) == (code == 4 || code == 5), "an S/R CONFLICT line is printed iff the grammar has that shift/reduce conflict in this state on this term");
    CHECK((OUT[0] == 6) == (code == 6), "an R/R CONFLICT line is printed iff the grammar has that reduce/reduce conflict there");
    CHECK(OUT[0] == code, "the action line (shift / reduce / success / preferred side of a conflict) is the one the documented rules give");
    if (OUT[0] == code) {
      if (code == 2 || code == 4 || code == 5) CHECK(OUT[1] == arg, "the rule named in the line is the rule actually involved");
      if (code == 1) { int ts = (OUT[1] < OUT[3]) ? find_ref_state(TB) : -1; CHECK(ts == (int)arg, "shift goes to the state the grammar dictates"); }
    }
    /* the text describes the real table: the raw cell agrees with the line */
    if (OUT[0] == 1 || OUT[0] == 5) CHECK(OUT[4] == 2 || OUT[4] == 3, "a shift line describes a shift cell");
    if (OUT[0] == 2 || OUT[0] == 4) CHECK(OUT[4] == 4, "a reduce line describes a reduce cell");
    if (OUT[0] == 0) CHECK(OUT[4] == 0, "no line only for error cells");
  }''',
            witness='OUT[0] != 0', default_unwind=12, bounds={'k_diag': len(lr.R) * (g.max_rhs + 1) * g.term_count + 2, 'k_bits': 2 * nw + 2, 'write_state_diag_str': len(lr.R) * (g.max_rhs + 1) * g.term_count + 2, 'write_situation_diag_str': g.max_rhs + 2, 'operator<<': g.term_count + 2},
            fn_bounds={'find_ref_state': max(ns, 2 * nw) + 2}, mode='functional', meta={'module': 'c11', 'grammar': g.name}, timeout=1200, mem_gb=12)
        ks.append(k)
    return ks

def replay(r, wd):
    for k in kernels(wd, 'thorough'):
        if k.name == r['kernel']:
            k.unit.build(); k.build_native(); return k.run_native('real', r['inputs'])

def run(tier, seed):
    R = report.Run('C11', tier, seed)
    wd = vlib.workdir('C11')
    ks = kernels(wd, tier)
    kernel.run_kernels(R, ks)
    R.outside = ['grammars outside the families', 'DFA dump formatting', 'std::ostream formatting (the pieces streamed are observed)']
    R.assumptions = ['reference: textbook canonical LR(1) item sets in the library\'s item numbering; conflicts and their documented resolution computed independently',
                     'the (state, term) pair is a solver variable; the table and the item sets are those built by the real constructor inside the constant evaluator']
    return R.finish('one query per grammar (conflict-free, resolved S/R with either preference, R/R): for every (state, term) of the real table, write_state_diag_str prints the action line the reference dictates: '
                    'S/R or R/R CONFLICT iff the grammar has that conflict there, the rule actually involved, the preferred side, shift targets up to item-set identity; the raw cell agrees with the line')
