#include <ctpg/ctpg.hpp>
using namespace ctpg; using namespace ctpg::buffers;
struct tok_lexer { template<typename It, typename ES> constexpr auto match(match_options, source_point, It start, It, ES&) { unsigned char c = (unsigned char)*start; if (c >= 1 && c <= 2) return recognized_term(size16_t(c-1), 1); return recognized_term{}; } };
namespace g {
constexpr nterm<int> S("S"), C("C"), Y("Y");
constexpr parser p(S, terms('a','b'), nterms(S,C,Y), rules(
  S('a', C) >= [](char, int c){ return c+1; },
  C('b') >= [](char){ return 1; },
  C(Y, C) >= [](int, int c){ return c+10; },
  Y('a') >= [](char){ return 0; }), use_lexer<tok_lexer>{});
}
struct ev_stream { unsigned n=0; template<class T> constexpr ev_stream& operator<<(T&&){ ++n; return *this; } };
extern "C" __attribute__((noinline)) int h_parse(const char* in, int* out, unsigned* nev){
  char b[LEN+1]; for (int i=0;i<LEN;i++) b[i]=in[i]; b[LEN]=0;
  ev_stream s;
  auto r = g::p.parse(parse_options{}.set_skip_whitespace(false), cstring_buffer<LEN+1>(b), s);
  *nev = s.n; if (r) { *out = *r; return 1; } return 0;
}
