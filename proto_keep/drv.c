#include <stdio.h>
#include <stdint.h>
#include <stdlib.h>
#include <string.h>
uint32_t g_h_parse5(uint8_t* in, uint32_t* out, uint32_t* nev);
void* g___cxa_allocate_exception(uint64_t n){ return malloc(n); }
void g___cxa_throw(void*a,void*b,void*c){ printf("THROW\n"); exit(3); }
void g__ZNSt9exceptionD2Ev(void*p){}
void g__ZdlPv(void*p){}
void* g__ZTVN10__cxxabiv120__si_class_type_infoE; void* g__ZTISt9exception;
int main(int argc,char**argv){ char b[6]="     "; memcpy(b, argv[1], strlen(argv[1])>5?5:strlen(argv[1])); uint32_t out=0,nev=0; uint32_t r=g_h_parse5((uint8_t*)b,&out,&nev); printf("%u %d %u\n", r, r?(int)out:0, nev); }
void __CPROVER_assert(int c, const char* m){ if(!c){ printf("ASSERT %s\n", m); exit(4);} }
void __CPROVER_assume(int c){ if(!c){ printf("ASSUME0\n"); exit(5);} }
