#include <stdint.h>
uint32_t g_h_match(uint8_t* in, uint32_t* len);
uint8_t nondet_u8(void);
/* reference for a(b|c)*d : minimal DFA 0 -a-> 1 ; 1 -b,c-> 1 ; 1 -d-> 2(acc) */
static int ref(const uint8_t* s, int n, int* best){ int st=0; *best=-1; for(int i=0;i<n;i++){ uint8_t c=s[i]; if(st==0){ if(c=='a') st=1; else break; } else if(st==1){ if(c=='b'||c=='c') st=1; else if(c=='d'){ st=2; *best=i+1; } else break; } else break; } return *best; }
void harness(void){
  uint8_t in[LEN]; for (int i=0;i<LEN;i++) in[i]=nondet_u8();
  uint32_t len=0; uint32_t t = g_h_match(in,&len);
  int best; ref(in, LEN, &best);
#ifdef WITNESS
  __CPROVER_assert(!(t==0 && len==LEN), "witness: full match reachable");
#else
  __CPROVER_assert((best>=0) == (t==0), "recognised iff reference has an accepting prefix");
  __CPROVER_assert(best<0 || len==(uint32_t)best, "longest accepting prefix");
#endif
}
