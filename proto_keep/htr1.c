#include "tr1.c"
uint8_t* g___cxa_allocate_exception(uint64_t n){ static uint8_t buf[64]; return buf; }
void g___cxa_free_exception(uint8_t*p){}
int g_thrown = 0;
void g___cxa_throw(uint8_t*a,uint8_t*b,uint8_t*c){ g_thrown = 1; __CPROVER_assume(0); }
void g__ZNSt13runtime_errorC1EPKc(struct S_class_std__runtime_error*a, uint8_t*b){}
void g__ZNSt13runtime_errorD1Ev(struct S_class_std__runtime_error*a){}
uint8_t* g__ZTISt13runtime_error;
uint16_t nondet_u16(void);
#define CAP 4
#define NSTATE 3
#define NSYM 7
void harness(void){
  struct S_struct_ctpg__parser_ctpg_21 gi; struct A2 simple; struct A4 table; struct S_struct_ctpg__parser_ctpg_0 sa;
  sa.f0 = &gi; sa.f1 = &simple; sa.f2 = &table;
  for (int r = 0; r < 4; r++) { __CPROVER_assume(gi.f1.a[r].f0 < 3); __CPROVER_assume(gi.f1.a[r].f1 < 4); __CPROVER_assume(gi.f1.a[r].f2 <= 2);
    __CPROVER_assume(gi.f4.a[r] <= 2); __CPROVER_assume(gi.f6.a[r] <= 2);
    for (int k = 0; k < 2; k++) { __CPROVER_assume(gi.f0.a[r].a[k].f0 <= 1); __CPROVER_assume(gi.f0.a[r].a[k].f1 < (gi.f0.a[r].a[k].f0 ? 4 : 3)); } }
  for (int s = 0; s < NSTATE; s++) { __CPROVER_assume(sa.f3.a[s].f0.f1 <= CAP); for (int y = 0; y < NSYM; y++) __CPROVER_assume(sa.f3.a[s].f2.a[y].f1 <= CAP); }
  __CPROVER_assume(sa.f4 >= 1 && sa.f4 <= NSTATE);
  uint16_t st = nondet_u16(), sym = nondet_u16();
  __CPROVER_assume(st < sa.f4); __CPROVER_assume(sym < NSYM);
  /* bucket invariant of situations_by_symbol[sym] */
  for (int i = 0; i < CAP; i++) if (i < sa.f3.a[st].f2.a[sym].f1) {
    uint32_t sit = sa.f3.a[st].f2.a[sym].f0.a[i]; __CPROVER_assume(sit < 48);
    uint32_t t = sit % 4, after = (sit / 4) % 3, ri = sit / 12;
    uint16_t r = gi.f1.a[ri].f1, n = gi.f1.a[ri].f2;
    __CPROVER_assume(after <= n);
    if (after < n) { uint16_t pt = gi.f0.a[r].a[after].f0 ? 3 + gi.f0.a[r].a[after].f1 : gi.f0.a[r].a[after].f1; __CPROVER_assume(pt == sym); }
    else __CPROVER_assume(3 + t == sym);
  }
  g_k_trans(&sa, st, sym);
#ifdef WITNESS
  __CPROVER_assert(!(table.a[st].a[sym].f0 == 5), "witness: an R/R conflict cell is reachable");
#endif
}
