#!/usr/bin/env python3
"""Prototype LLVM-14 IR (typed pointers) -> C translator for CBMC.  Feasibility probe only."""
import re, sys, collections

TOK = re.compile(r'''\s*(c"(?:[^"\\]|\\[0-9A-Fa-f]{2})*"|[%@]"(?:[^"\\]|\\.)*"|[%@][-a-zA-Z$._0-9]+|![a-zA-Z0-9_.]*|\#\d+|-?\d+\.\d+(?:e[+-]?\d+)?|0x[0-9A-Fa-f]+|-?\d+|\.\.\.|[a-zA-Z_][a-zA-Z0-9_.]*|[\[\]{}<>()*,=:!])''')

def tokenize(s):
    out = []; i = 0; n = len(s)
    while i < n:
        m = TOK.match(s, i)
        if not m:
            if s[i:].strip() == '' or s[i:].lstrip().startswith(';'): break
            raise SyntaxError('tok: ' + s[i:i+60])
        t = m.group(1)
        if t == '!' or t.startswith('!'):
            # metadata: drop rest of line from preceding comma
            while out and out[-1] == ',': out.pop()
            break
        out.append(t); i = m.end()
        if s[i:i+2] == ' ;' or s[i:].lstrip().startswith(';'): break
    return out

# ---------------- types -----------------
class T:
    def __init__(s, k, **kw): s.k = k; s.__dict__.update(kw)
    def __repr__(s): return tstr(s)
def tstr(t):
    k = t.k
    if k == 'int': return 'i%d' % t.w
    if k == 'void': return 'void'
    if k == 'ptr': return tstr(t.to) + '*'
    if k == 'arr': return '[%d x %s]' % (t.n, tstr(t.el))
    if k == 'named': return t.name
    if k == 'struct': return ('<{%s}>' if t.packed else '{%s}') % ','.join(tstr(f) for f in t.fs)
    if k == 'fn': return '%s(%s%s)' % (tstr(t.ret), ','.join(tstr(a) for a in t.args), ',...' if t.va else '')
    if k == 'fp': return t.name
    return k
_tc = {}
def mk(k, **kw):
    t = T(k, **kw); key = tstr(t)
    if key in _tc: return _tc[key]
    _tc[key] = t; return t
named = {}   # name -> struct T or None(opaque)

class P:
    def __init__(s, toks): s.t = toks; s.i = 0
    def peek(s, o=0): return s.t[s.i+o] if s.i+o < len(s.t) else None
    def next(s): x = s.t[s.i]; s.i += 1; return x
    def eat(s, x):
        if s.peek() != x: raise SyntaxError('expected %r got %r at %d in %r' % (x, s.peek(), s.i, ' '.join(s.t[max(0,s.i-8):s.i+8])))
        s.i += 1
    def opt(s, x):
        if s.peek() == x: s.i += 1; return True
        return False
    def type(s):
        t = s.type0()
        while True:
            if s.peek() == '*': s.next(); t = mk('ptr', to=t)
            elif s.peek() == '(' :
                # function type
                s.next(); args = []; va = False
                while s.peek() != ')':
                    if s.peek() == '...': s.next(); va = True
                    else: args.append(s.type())
                    s.opt(',')
                s.next(); t = mk('fn', ret=t, args=tuple(args), va=va)
            else: return t
    def type0(s):
        x = s.next()
        if x == 'void': return mk('void')
        if re.fullmatch(r'i\d+', x): return mk('int', w=int(x[1:]))
        if x in ('float', 'double'): return mk('fp', name=x)
        if x in ('label', 'metadata', 'opaque'): return mk(x)
        if x[0] == '%': return mk('named', name=x)
        if x == '[':
            n = int(s.next()); s.eat('x'); el = s.type(); s.eat(']'); return mk('arr', n=n, el=el)
        if x == '{':
            fs = []
            while s.peek() != '}': fs.append(s.type()); s.opt(',')
            s.next(); return mk('struct', fs=tuple(fs), packed=False)
        if x == '<':
            if s.peek() == '{':
                s.next(); fs = []
                while s.peek() != '}': fs.append(s.type()); s.opt(',')
                s.next(); s.eat('>'); return mk('struct', fs=tuple(fs), packed=True)
            n = int(s.next()); s.eat('x'); el = s.type(); s.eat('>'); return mk('vec', n=n, el=el)
        raise SyntaxError('type? ' + x)

def resolve(t):
    while t.k == 'named': t = named[t.name]
    return t

def align_of(t):
    t = resolve(t); k = t.k
    if k == 'int': return min(8, max(1, 1 << ((max(t.w, 8) - 1).bit_length() - 3))) if t.w <= 64 else 16
    if k == 'ptr': return 8
    if k == 'fp': return 4 if t.name == 'float' else 8
    if k == 'arr': return align_of(t.el)
    if k == 'struct': return 1 if t.packed else max([align_of(f) for f in t.fs] + [1])
    raise Exception('align ' + tstr(t))
def size_of(t):
    t = resolve(t); k = t.k
    if k == 'int': return max(1, 1 << ((max(t.w, 8) - 1).bit_length() - 3)) if t.w <= 64 else 16
    if k == 'ptr': return 8
    if k == 'fp': return 4 if t.name == 'float' else 8
    if k == 'arr': return t.n * size_of(t.el)
    if k == 'struct':
        o = 0
        for f in t.fs:
            if not t.packed: a = align_of(f); o = (o + a - 1) // a * a
            o += size_of(f)
        if not t.packed: a = align_of(t); o = (o + a - 1) // a * a
        return o
    raise Exception('size ' + tstr(t))
def field_off(t, i):
    t = resolve(t); o = 0
    for j, f in enumerate(t.fs):
        if not t.packed: a = align_of(f); o = (o + a - 1) // a * a
        if j == i: return o
        o += size_of(f)

# ---------------- C type names -----------------
cdecls = []
OUT_TYPES = []
cname_cache = {}
def cid(name):
    return re.sub(r'[^A-Za-z0-9_]', '_', name)
_short = {}
def short(name, pref):
    if name not in _short:
        base = cid(name.strip('%@"'))
        if len(base) > 40: base = base[:24] + '_%d' % len(_short)
        base = pref + base
        while base in _short.values(): base += '_'
        _short[name] = base
    return _short[name]

emitted = set(); emitting = set(); fwd = []
def ctype(t):
    """C type expression usable as a declarator prefix (pointers to functions are typedef'd)."""
    k = t.k
    if k == 'int':
        w = t.w
        if w == 1: return 'uint8_t'
        if w in (8, 16, 32, 64): return 'uint%d_t' % w
        if w == 128: return 'unsigned __int128'
        return 'unsigned __CPROVER_bitvector[%d]' % w if False else 'uint%d_t' % (8 if w < 8 else 16 if w < 16 else 32 if w < 32 else 64)
    if k == 'void': return 'void'
    if k == 'fp': return t.name
    if k == 'ptr':
        if t.to.k == 'fn': return fn_typedef(t.to) + '*'
        if t.to.k == 'void': return 'void*'
        return ctype(t.to) + '*'
    if k == 'named':
        return 'struct ' + short(t.name, 'S_')
    if k in ('struct', 'arr'):
        return 'struct ' + agg_name(t)
    if k == 'fn': return fn_typedef(t)
    if k == 'opaque': return 'void'
    raise Exception('ctype ' + tstr(t))
_agg = {}
def agg_name(t):
    key = tstr(t)
    if key not in _agg: _agg[key] = ('A%d' if t.k == 'arr' else 'L%d') % len(_agg)
    return _agg[key]
_fnt = {}
def fn_typedef(t):
    key = tstr(t)
    if key not in _fnt:
        nm = 'FT%d' % len(_fnt); _fnt[key] = nm
    return _fnt[key]

def define_type(t, out):
    """ensure full definition of t (by-value use) is emitted"""
    k = t.k
    if k == 'named':
        nm = short(t.name, 'S_')
        if nm in emitted: return
        body = named.get(t.name)
        if body is None or body.k == 'opaque': return
        if nm in emitting: raise Exception('recursive by-value ' + t.name)
        emitting.add(nm)
        for f in body.fs: define_type(f, out)
        out.append('struct %s { %s }%s;' % (nm, ' '.join('%s f%d;' % (ctype(f), i) for i, f in enumerate(body.fs)) or 'char _e;', ' __attribute__((packed))' if body.packed else ''))
        emitted.add(nm)
    elif k == 'struct':
        nm = agg_name(t)
        if nm in emitted: return
        for f in t.fs: define_type(f, out)
        out.append('struct %s { %s }%s;' % (nm, ' '.join('%s f%d;' % (ctype(f), i) for i, f in enumerate(t.fs)) or 'char _e;', ' __attribute__((packed))' if t.packed else ''))
        emitted.add(nm)
    elif k == 'arr':
        nm = agg_name(t)
        if nm in emitted: return
        define_type(t.el, out)
        out.append('struct %s { %s a[%d]; };' % (nm, ctype(t.el), max(t.n, 1)))
        emitted.add(nm)
    elif k == 'ptr':
        touch_type(t.to, out)
    elif k == 'fn':
        touch_type(t, out)
def touch_type(t, out):
    """pointer-level use: forward declarations suffice"""
    k = t.k
    if k == 'named': pass
    elif k in ('struct', 'arr'): define_type(t, out)
    elif k == 'ptr': touch_type(t.to, out)
    elif k == 'fn':
        key = tstr(t)
        nm = fn_typedef(t)
        if nm in emitted: return
        emitted.add(nm)
        touch_type(t.ret, out)
        for a in t.args: touch_type(a, out)
        out.append('typedef %s %s(%s);' % (ctype(t.ret), nm, ', '.join(ctype(a) for a in t.args) or 'void'))

# ---------------- constants / values -----------------
class V:
    def __init__(s, ty, c): s.ty = ty; s.c = c

def gname(x): return short(x, 'g_')
globals_ty = {}   # @name -> value type (not pointer)
RETYPE = {}   # (gname, k) -> T
LASTGEP = [None]
funcs_ty = {}     # @name -> fn type

def zero_init(t):
    r = resolve(t)
    if r.k in ('struct', 'arr'): return '{0}'
    return '0'


def parse_const(p, ty):
    return render(parse_ctree(p, ty), ty)

def parse_ctree(p, ty):
    """-> ('int',val) | ('ptr',cexpr) | ('zero',) | ('agg',[(type,tree)...]) | ('bytes',[..])"""
    x = p.peek(); r = resolve(ty)
    if x in ('zeroinitializer', 'undef', 'poison', 'null', 'false', 'none'): p.next(); return ('zero',)
    if x == 'true': p.next(); return ('int', 1)
    if re.fullmatch(r'-?\d+', x):
        p.next(); v = int(x)
        if r.k == 'int': v &= (1 << r.w) - 1
        return ('int', v)
    if x[0] == 'c' and x[1] == '"':
        p.next(); s = x[2:-1]; bs = []; i = 0
        while i < len(s):
            if s[i] == '\\': bs.append(int(s[i+1:i+3], 16)); i += 3
            else: bs.append(ord(s[i])); i += 1
        return ('agg', [(mk('int', w=8), ('int', b)) for b in bs])
    if x == '[':
        p.next(); el = []
        while p.peek() != ']':
            t = p.type(); el.append((t, parse_ctree(p, t))); p.opt(',')
        p.next(); return ('agg', el)
    if x == '{' or (x == '<' and p.peek(1) == '{'):
        if x == '<': p.next()
        p.next(); el = []
        while p.peek() != '}':
            t = p.type(); el.append((t, parse_ctree(p, t))); p.opt(',')
        p.next()
        if x == '<': p.eat('>')
        return ('agg', el)
    if x[0] == '@':
        p.next(); return ('ptr', gref(x))
    if x in ('getelementptr', 'bitcast', 'ptrtoint', 'inttoptr', 'trunc', 'zext', 'sext', 'add', 'sub'):
        return ('ptr', const_expr(p)[1])
    raise SyntaxError('const? %r (type %s)' % (x, tstr(ty)))

def render(tr, ty):
    r = resolve(ty); k = tr[0]
    if k == 'zero': return '{0}' if r.k in ('struct', 'arr') else '0'
    if k == 'int':
        v = tr[1]
        return '%dU' % v if r.k == 'int' and r.w <= 32 else '%dULL' % v
    if k == 'ptr': return '((%s)%s)' % (ctype(ty), tr[1]) if r.k == 'ptr' else '((%s)(uintptr_t)%s)' % (ctype(ty), tr[1])
    if k == 'agg':
        if r.k == 'arr': return '{{%s}}' % ','.join(render(c, t) for t, c in tr[1])
        return '{%s}' % ','.join(render(c, t) for t, c in tr[1]) if tr[1] else '{0}'
    raise Exception(k)

def flatten(tr, ty, off, img):
    """img: offset -> ('b', byte) | ('p', cexpr)"""
    r = resolve(ty); k = tr[0]
    if k == 'zero': return
    if k == 'int':
        n = size_of(ty)
        for i in range(n): img[off + i] = ('b', (tr[1] >> (8 * i)) & 255)
    elif k == 'ptr': img[off] = ('p', tr[1])
    elif k == 'agg':
        if r.k == 'arr':
            es = size_of(r.el)
            for i, (t, c) in enumerate(tr[1]): flatten(c, t, off + i * es, img)
        else:
            for i, (t, c) in enumerate(tr[1]): flatten(c, t, off + field_off(ty, i), img)

def build(ty, off, img):
    r = resolve(ty)
    if r.k == 'int':
        n = size_of(ty); v = 0
        if off in img and img[off][0] == 'p': return '((%s)(uintptr_t)%s)' % (ctype(ty), img[off][1])
        for i in range(n):
            if off + i in img: v |= img[off + i][1] << (8 * i)
        return '%dU' % v if r.w <= 32 else '%dULL' % v
    if r.k == 'ptr':
        if off in img and img[off][0] == 'p': return '((%s)%s)' % (ctype(ty), img[off][1])
        return '0'
    if r.k == 'arr':
        es = size_of(r.el)
        return '{{%s}}' % ','.join(build(r.el, off + i * es, img) for i in range(r.n))
    if r.k == 'struct':
        return '{%s}' % ','.join(build(f, off + field_off(ty, i), img) for i, f in enumerate(r.fs))
    raise Exception('build ' + tstr(ty))

def gref(x):
    if x in funcs_ty: return gname(x)
    return '(&%s)' % gname(x)
def gref_type(x):
    if x in funcs_ty: return mk('ptr', to=funcs_ty[x])
    return mk('ptr', to=globals_ty[x])

def const_expr(p):
    op = p.next()
    if op == 'getelementptr':
        p.opt('inbounds'); p.eat('(')
        base_t = p.type(); p.eat(',')
        pt = p.type(); pv = operand(p, pt); idx = []
        while p.opt(','):
            p.opt('inrange')
            it = p.type(); idx.append((it, operand(p, it)))
        p.eat(')')
        LASTGEP[0] = (base_t, pv, idx)
        return gep(base_t, pv, idx)
    if op in ('bitcast', 'ptrtoint', 'inttoptr', 'trunc', 'zext', 'sext', 'addrspacecast'):
        p.eat('('); ft = p.type(); LASTGEP[0] = None; isgep = p.peek() == 'getelementptr'; v = operand(p, ft); p.eat('to'); tt = p.type(); p.eat(')')
        if op == 'bitcast' and isgep and LASTGEP[0] and tt.k == 'ptr':
            bt, pv, idx = LASTGEP[0]
            m = re.fullmatch(r'\(&(g_\w+)\)', pv)
            rb = resolve(bt)
            if m and rb.k == 'struct' and len(idx) >= 2 and all(re.fullmatch(r'0U?L?L?', iv) for _, iv in [idx[0]] + idx[2:]):
                k = int(idx[1][1].rstrip('UL'))
                if resolve(tt.to).k in ('struct', 'arr') and size_of(tt.to) == size_of(rb.fs[k]) and tstr(tt.to) != tstr(rb.fs[k]):
                    RETYPE[(m.group(1), k)] = tt.to
                    define_type(tt.to, OUT_TYPES)
                    return (tt, '(&%s.f%d)' % (m.group(1), k))
        return (tt, cast(op, ft, v, tt))
    if op in ('add', 'sub'):
        while p.peek() in ('nuw', 'nsw'): p.next()
        p.eat('('); t1 = p.type(); a = operand(p, t1); p.eat(','); t2 = p.type(); b = operand(p, t2); p.eat(')')
        return (t1, '((%s)(%s %s %s))' % (ctype(t1), a, '+' if op == 'add' else '-', b))
    raise SyntaxError('constexpr ' + op)

def operand(p, ty):
    """parse a value operand of known type; returns C expr"""
    x = p.peek()
    if x[0] == '%':
        p.next(); return lname(x)
    if x[0] == '@':
        p.next(); return gref(x)
    if x in ('getelementptr', 'bitcast', 'ptrtoint', 'inttoptr', 'trunc', 'zext', 'sext', 'add', 'sub'):
        return const_expr(p)[1]
    r = resolve(ty)
    if x in ('undef', 'poison') and r.k in ('struct', 'arr'):
        p.next(); return '(%s){0}' % ctype(ty)
    if x == 'zeroinitializer' and r.k in ('struct', 'arr'):
        p.next(); return '(%s){0}' % ctype(ty)
    c = parse_const(p, ty)
    if r.k == 'ptr' and c == '0': return '((%s)0)' % ctype(ty)
    if r.k in ('struct', 'arr'): return '(%s)%s' % (ctype(ty), c)
    return c

def lname(x):
    n = x[1:].strip('"')
    return 'v_' + cid(n)

def gep(base_t, pv, idx):
    """returns (result pointer type, C expr)"""
    cur = base_t
    define_type(base_t, OUT_TYPES) if resolve(base_t).k in ('struct','arr') else touch_type(base_t, OUT_TYPES)
    first = idx[0][1]
    e = '%s[%s]' % (pv, sidx(idx[0]))
    for (it, iv) in idx[1:]:
        r = resolve(cur)
        if r.k == 'struct':
            n = int(iv.rstrip('UL')); e += '.f%d' % n; cur = r.fs[n]
        elif r.k == 'arr':
            e += '.a[%s]' % sidx((it, iv)); cur = r.el
        else: raise Exception('gep into ' + tstr(cur))
    return (mk('ptr', to=cur), '(&%s)' % e)
def sidx(iv):
    it, v = iv
    w = resolve(it).w
    if re.fullmatch(r'\d+U?L?L?', v): return str(int(v.rstrip('UL')) - (1 << w) if int(v.rstrip('UL')) >> (w - 1) else int(v.rstrip('UL')))
    return '(int%d_t)%s' % (w if w in (8, 16, 32, 64) else 64, v)

def cast(op, ft, v, tt):
    touch_type(tt, OUT_TYPES)
    if tt.k == 'ptr' and resolve(tt.to).k in ('struct','arr'): define_type(tt.to, OUT_TYPES)
    ct = ctype(tt)
    if op in ('bitcast', 'inttoptr', 'addrspacecast'): return '((%s)%s)' % (ct, v)
    if op == 'ptrtoint': return '((%s)(uintptr_t)%s)' % (ct, v)
    fw = resolve(ft).w; tw = resolve(tt).w
    if op == 'trunc':
        return '((%s)(%s & %s))' % (ct, v, mask(tw)) if tw not in (8, 16, 32, 64) else '((%s)%s)' % (ct, v)
    if op == 'zext': return '((%s)%s)' % (ct, v)
    if op == 'sext':
        if fw == 1: return '((%s)(%s ? -1 : 0))' % (ct, v)
        return '((%s)(int%d_t)(int%d_t)%s)' % (ct, tw if tw in (8,16,32,64) else 64, fw, v)
def mask(w): return '0x%xULL' % ((1 << w) - 1)

# ---------------- module parse -----------------
def main():
    src = open(sys.argv[1]).read().split('\n')
    out_types = OUT_TYPES; out_globals = []; out_protos = []; out_funcs = []
    # pass 1: named types
    for ln in src:
        m = re.match(r'^(%(?:"[^"]*"|[-\w$.]+)) = type (.*)$', ln)
        if m:
            p = P(tokenize(m.group(2)))
            named[m.group(1)] = p.type()
    # pass 1b: global & function signatures
    i = 0; gl = []; fdefs = []
    while i < len(src):
        ln = src[i]
        if ln.startswith('@'):
            gl.append(ln)
        elif ln.startswith('declare') or ln.startswith('define'):
            hdr = ln
            toks = tokenize(ln.split(' personality ')[0].rstrip('{ ')) if ln.startswith('define') else tokenize(ln)
            p = P(toks); p.next()
            # skip linkage etc until a type token followed (eventually) by @name
            fn = parse_fn_header(p)
            funcs_ty[fn['name']] = fn['type']
            if ln.startswith('define'):
                body = []
                i += 1
                while src[i] != '}': body.append(src[i]); i += 1
                fn['body'] = body; fdefs.append(fn)
            else:
                fn['body'] = None; fdefs.append(fn)
        i += 1
    ginfo = []
    for ln in gl:
        m = re.match(r'^(@(?:"[^"]*"|[-\w$.]+)) = (.*)$', ln)
        name = m.group(1); rest = m.group(2)
        toks = tokenize(rest); p = P(toks)
        ext = False
        while p.peek() in ('private', 'internal', 'external', 'linkonce_odr', 'weak_odr', 'dso_local', 'unnamed_addr', 'local_unnamed_addr', 'hidden', 'available_externally', 'common', 'weak', 'thread_local', 'appending', 'linkonce'):
            if p.peek() == 'external': ext = True
            p.next()
        kind = p.next()   # global|constant
        ty = p.type()
        globals_ty[name] = ty
        ginfo.append((name, ty, p, ext, kind))
    gtrees = {}
    for (name, ty, p, ext, kind) in ginfo:
        define_type(ty, out_types)
        if not (ext or p.peek() is None or p.peek() in (',',)):
            gtrees[name] = parse_ctree(p, ty)
    # functions
    for fn in fdefs:
        ft = fn['type']
        touch_type(ft, out_types)
        for a in ft.args: touch_type(a, out_types)
        args = ', '.join('%s %s' % (ctype(t), lname(n) if n else 'a%d' % k) for k, (t, n) in enumerate(zip(ft.args, fn['argnames'])))
        if ft.va: args += (', ...' if args else '')
        sig = '%s %s(%s)' % (ctype(ft.ret), gname(fn['name']), args or ('' if ft.va else 'void'))
        out_protos.append(sig + ';')
    skip = set(a for a in sys.argv[2:])
    for fn in fdefs:
        if fn['body'] is None: continue
        out_funcs.append(emit_fn(fn, out_types))
    gdecl = []
    for (name, ty, p, ext, kind) in ginfo:
        gn = gname(name); r = resolve(ty)
        rts = {k: t for (g, k), t in RETYPE.items() if g == gn}
        if name not in gtrees:
            out_globals.append('extern %s %s;' % (ctype(ty), gn)); gdecl.append('extern %s %s;' % (ctype(ty), gn)); continue
        tr = gtrees[name]
        if rts:
            assert r.k == 'struct' and tr[0] == 'agg'
            sn = 'G_' + gn
            out_types.append('struct %s { %s }%s;' % (sn, ' '.join('%s f%d;' % (ctype(rts.get(i, f)), i) for i, f in enumerate(r.fs)), ' __attribute__((packed))' if r.packed else ''))
            parts = []
            for i, (t, c) in enumerate(tr[1]):
                if i in rts:
                    img = {}; flatten(c, t, 0, img); parts.append(build(rts[i], 0, img))
                else: parts.append(render(c, t))
            gdecl.append('struct %s %s;' % (sn, gn))
            out_globals.append('struct %s %s = {%s};' % (sn, gn, ','.join(parts)))
        else:
            gdecl.append('%s %s;' % (ctype(ty), gn))
            out_globals.append('%s %s = %s;' % (ctype(ty), gn, render(tr, ty)))
    print('#include <stdint.h>\n#include <string.h>\n#include <stddef.h>')
    # forward declare all named structs
    for n in named: print('struct %s;' % short(n, 'S_'))
    print('\n'.join(out_types))
    print('\n'.join(gdecl))
    print('\n'.join(out_protos))
    print('\n'.join(out_globals))
    print('\n'.join(out_funcs))

def parse_fn_header(p):
    attrs = ('private', 'internal', 'external', 'linkonce_odr', 'weak_odr', 'dso_local', 'unnamed_addr', 'local_unnamed_addr', 'hidden', 'fastcc', 'noundef', 'nonnull', 'zeroext', 'signext', 'noalias', 'available_externally', 'weak', 'nocapture', 'readonly', 'writeonly', 'readnone', 'immarg', 'returned', 'nofree', 'inreg', 'linkonce', 'swiftself', 'nest')
    while p.peek() in attrs: p.next()
    # return attrs like align N / dereferenceable(N)
    def skip_pattrs():
        while True:
            x = p.peek()
            if x in attrs: p.next()
            elif x in ('align',): p.next(); p.next()
            elif x in ('dereferenceable', 'dereferenceable_or_null'): p.next(); p.eat('('); p.next(); p.eat(')')
            elif x in ('sret', 'byval', 'byref', 'inalloca', 'preallocated', 'elementtype'): p.next(); p.eat('('); p.type(); p.eat(')')
            else: break
    skip_pattrs()
    ret = p.type0()
    while p.peek() == '*': p.next(); ret = mk('ptr', to=ret)
    name = p.next(); p.eat('(')
    args = []; names = []; va = False
    while p.peek() != ')':
        if p.peek() == '...': p.next(); va = True
        else:
            t = p.type(); skip_pattrs()
            n = None
            if p.peek() and p.peek()[0] == '%': n = p.next()
            args.append(t); names.append(n)
        p.opt(',')
    p.next()
    return {'name': name, 'type': mk('fn', ret=ret, args=tuple(args), va=va), 'argnames': names}

LV = {}   # ssa ptr var -> (base_ptr_expr, [first_idx, steps...])
BC = {}   # ssa i8* var -> (src ptr var, pointee type)
BINOPS = {'add': '+', 'sub': '-', 'mul': '*', 'and': '&', 'or': '|', 'xor': '^', 'shl': '<<', 'lshr': '>>', 'udiv': '/', 'urem': '%'}
ICMP = {'eq': '==', 'ne': '!=', 'ugt': '>', 'uge': '>=', 'ult': '<', 'ule': '<=', 'sgt': '>', 'sge': '>=', 'slt': '<', 'sle': '<='}

def emit_fn(fn, out_types):
    ft = fn['type']; body = fn['body']
    # number unnamed args
    argn = []
    k = 0
    for n in fn['argnames']:
        if n is None: argn.append('%%%d' % k)
        else: argn.append(n)
        k += 1
    decls = collections.OrderedDict()
    blocks = []   # (label, [lines])
    cur = ('entry_%d' % len(fn['argnames']), [])
    # implicit entry label is next unnamed number
    entry_label = str(len([n for n in fn['argnames']]))
    cur = (entry_label, []); blocks.append(cur)
    j = 0
    lines = []
    while j < len(body):
        ln = body[j]
        if ln.strip().startswith('switch') and ln.rstrip().endswith('['):
            j += 1
            while not body[j].strip().startswith(']'): ln += ' ' + body[j].strip(); j += 1
            ln += ' ]'
        if ' invoke ' in ln and j + 1 < len(body) and body[j+1].strip().startswith('to label'):
            ln += ' ' + body[j+1].strip(); j += 1
        lines.append(ln); j += 1
    for ln in lines:
        if not ln.strip(): continue
        m = re.match(r'^([-\w$.]+|"[^"]*"):', ln)
        if m:
            cur = (m.group(1).strip('"'), []); blocks.append(cur); continue
        cur[1].append(ln)
    # phi handling: collect phis per block
    phis = collections.defaultdict(list)   # pred label -> [(dst, ctype, valexpr, blocklabel)]
    LV.clear(); BC.clear()
    code = {}
    for (lab, lns) in blocks:
        outl = []
        for ln in lns:
            toks = tokenize(ln)
            if not toks: continue
            p = P(toks)
            try:
                emit_inst(p, outl, decls, phis, lab, out_types, ft)
            except Exception as e:
                raise Exception('%s\n  in: %s' % (e, ln[:300]))
        code[lab] = outl
    res = []
    args = ', '.join('%s %s' % (ctype(t), lname(n)) for t, n in zip(ft.args, argn))
    res.append('%s %s(%s) {' % (ctype(ft.ret), gname(fn['name']), args or 'void'))
    for n, ct in decls.items(): res.append('  %s %s;' % (ct, n))
    for (lab, lns) in blocks:
        res.append(' L_%s: ;' % cid(lab))
        for l in code[lab]:
            if l.startswith('@@TERM'):
                # flush phi copies for this pred before terminator
                for (dst, ct, val, blk) in phis.get(lab, []):
                    res.append('  %s_phi = %s;' % (dst, val))
                res.append('  ' + l[6:])
            else: res.append('  ' + l)
    res.append('}')
    txt = '\n'.join(res)
    return txt

def lab(x): return 'L_' + cid(x[1:].strip('"'))
def lvtext(v):
    if v not in LV: return '(*%s)' % v
    b, path = LV[v]
    m = re.fullmatch(r'\(&([A-Za-z_]\w*(?:\.f\d+)*)\)', b)
    if m and path[0][1] == '0': e = m.group(1)
    else: e = '%s[%s]' % (b, path[0][1])
    for k, x in path[1:]:
        e += ('.f%d' % x) if k == 'f' else ('.a[%s]' % x)
    return e

def declare(decls, name, ty, out_types):
    define_type(ty, out_types) if resolve(ty).k in ('struct', 'arr') else touch_type(ty, out_types)
    decls[name] = ctype(ty)

def emit_inst(p, out, decls, phis, curlab, out_types, ft):
    dst = None
    if p.peek(1) == '=':
        dst = lname(p.next()); p.next()
    op = p.next()
    while op in ('tail', 'musttail', 'notail'): op = p.next()
    def setv(ty, expr):
        declare(decls, dst, ty, out_types)
        out.append('%s = %s;' % (dst, expr))
    if op in BINOPS or op in ('sdiv', 'srem', 'ashr'):
        while p.peek() in ('nuw', 'nsw', 'exact'): p.next()
        ty = p.type(); a = operand(p, ty); p.eat(','); b = operand(p, ty)
        w = resolve(ty).w; ct = ctype(ty)
        if op in ('sdiv', 'srem', 'ashr'):
            sop = {'sdiv': '/', 'srem': '%', 'ashr': '>>'}[op]
            e = '(%s)((int%d_t)%s %s %s)' % (ct, w, a, sop, ('(int%d_t)%s' % (w, b)) if op != 'ashr' else b)
        else:
            e = '(%s)(%s %s %s)' % (ct, a, BINOPS[op], b)
            if w == 1 and op in ('add', 'sub', 'xor'): e = '(%s)((%s ^ %s) & 1)' % (ct, a, b)
            elif w not in (8, 16, 32, 64, 128): e = '(%s)((%s %s %s) & %s)' % (ct, a, BINOPS[op], b, mask(w))
        setv(ty, e)
    elif op == 'icmp':
        pred = p.next(); ty = p.type(); a = operand(p, ty); p.eat(','); b = operand(p, ty)
        r = resolve(ty)
        if pred[0] == 's' and r.k == 'int':
            a = '(int%d_t)%s' % (r.w, a); b = '(int%d_t)%s' % (r.w, b)
        setv(mk('int', w=1), '(%s %s %s)' % (a, ICMP[pred], b))
    elif op in ('zext', 'sext', 'trunc', 'bitcast', 'ptrtoint', 'inttoptr'):
        ftp = p.type(); v = operand(p, ftp); p.eat('to'); tt = p.type()
        setv(tt, cast(op, ftp, v, tt))
        if op == 'bitcast' and ftp.k == 'ptr' and re.fullmatch(r'v_\w+', v): BC[dst] = (v, ftp.to)
    elif op == 'getelementptr':
        p.opt('inbounds'); bt = p.type(); p.eat(','); pt = p.type(); pv = operand(p, pt); idx = []
        while p.opt(','):
            it = p.type(); idx.append((it, operand(p, it)))
        rt, e = gep(bt, pv, idx)
        setv(rt, e)
        # lvalue fusion
        steps = []; cur = bt
        for (it, iv) in idx[1:]:
            r = resolve(cur)
            if r.k == 'struct': n = int(iv.rstrip('UL')); steps.append(('f', n)); cur = r.fs[n]
            else: steps.append(('a', sidx((it, iv)))); cur = r.el
        i0 = sidx(idx[0])
        if pv in LV:
            b0, p0 = LV[pv]
            if i0 == '0': LV[dst] = (b0, p0 + steps)
            elif p0[-1][0] in ('a', 'i'): LV[dst] = (b0, p0[:-1] + [(p0[-1][0], '(%s)+(%s)' % (p0[-1][1], i0))] + steps)
            else: LV[dst] = (pv, [('i', i0)] + steps)
        else:
            LV[dst] = (pv, [('i', i0)] + steps)
    elif op == 'load':
        p.opt('volatile'); ty = p.type(); p.eat(','); pt = p.type(); pv = operand(p, pt)
        if False: pass
        else:
            setv(ty, lvtext(pv))
    elif op == 'store':
        p.opt('volatile'); ty = p.type(); v = operand(p, ty); p.eat(','); pt = p.type(); pv = operand(p, pt)
        if False: pass
        else:
            out.append('%s = %s;' % (lvtext(pv), v))
    elif op == 'alloca':
        ty = p.type()
        define_type(ty, out_types)
        decls[dst + '_mem'] = ctype(ty)
        declare(decls, dst, mk('ptr', to=ty), out_types)
        out.append('%s = &%s_mem;' % (dst, dst))
    elif op == 'br':
        if p.peek() == 'label':
            p.next(); out.append('@@TERMgoto %s;' % lab(p.next()))
        else:
            ty = p.type(); c = operand(p, ty); p.eat(','); p.eat('label'); a = p.next(); p.eat(','); p.eat('label'); b = p.next()
            out.append('@@TERMif (%s) goto %s; else goto %s;' % (c, lab(a), lab(b)))
    elif op == 'switch':
        ty = p.type(); v = operand(p, ty); p.eat(','); p.eat('label'); d = p.next(); p.eat('[')
        s = 'switch (%s) {' % v
        while p.peek() != ']':
            t2 = p.type(); c = operand(p, t2); p.eat(','); p.eat('label'); l = p.next()
            s += ' case %s: goto %s;' % (c, lab(l))
        s += ' default: goto %s; }' % lab(d)
        out.append('@@TERM' + s)
    elif op == 'ret':
        ty = p.type()
        if ty.k == 'void': out.append('@@TERMreturn;')
        else: out.append('@@TERMreturn %s;' % operand(p, ty))
    elif op == 'unreachable':
        out.append('@@TERM__CPROVER_assert(0, "unreachable reached"); __CPROVER_assume(0);')
    elif op == 'phi':
        ty = p.type()
        declare(decls, dst, ty, out_types)
        decls[dst + '_phi'] = ctype(ty)
        while True:
            p.eat('['); v = operand(p, ty); p.eat(','); l = p.next(); p.eat(']')
            phis[l[1:].strip('"')].append((dst, ctype(ty), v, curlab))
            if not p.opt(','): break
        out.append('%s = %s_phi;' % (dst, dst))
    elif op == 'select':
        ct = p.type(); c = operand(p, ct); p.eat(','); ty = p.type(); a = operand(p, ty); p.eat(','); t2 = p.type(); b = operand(p, t2)
        setv(ty, '(%s ? %s : %s)' % (c, a, b))
    elif op in ('call', 'invoke'):
        while p.peek() in ('fastcc', 'noundef', 'nonnull', 'zeroext', 'signext', 'noalias'): p.next()
        while p.peek() in ('align', 'dereferenceable', 'dereferenceable_or_null'):
            if p.next() == 'align': p.next()
            else: p.eat('('); p.next(); p.eat(')')
        rt = p.type()   # may be full fn type for varargs
        callee = p.next(); p.eat('(')
        args = []
        while p.peek() != ')':
            t = p.type()
            while True:
                x = p.peek()
                if x in ('noundef', 'nonnull', 'zeroext', 'signext', 'noalias', 'nocapture', 'readonly', 'writeonly', 'immarg', 'returned', 'readnone', 'nofree'): p.next()
                elif x == 'align': p.next(); p.next()
                elif x in ('dereferenceable', 'dereferenceable_or_null'): p.next(); p.eat('('); p.next(); p.eat(')')
                elif x in ('sret', 'byval', 'elementtype'): p.next(); p.eat('('); p.type(); p.eat(')')
                else: break
            args.append((t, operand(p, t))); p.opt(',')
        p.next()
        if rt.k == 'ptr' and rt.to.k == 'fn' : rt = rt.to.ret
        if rt.k == 'fn': rt = rt.ret
        nm = callee.strip('@"')
        call = None
        if callee[0] == '@':
            if nm.startswith('llvm.lifetime') or nm.startswith('llvm.dbg') or nm.startswith('llvm.experimental.noalias') or nm.startswith('llvm.assume'): call = ''
            elif nm.startswith('llvm.memcpy') or nm.startswith('llvm.memmove'):
                call = '%s((void*)%s, (void*)%s, %s)' % ('memcpy' if 'memcpy' in nm else 'memmove', args[0][1], args[1][1], args[2][1])
                d, sr, n = args[0][1], args[1][1], args[2][1]
                if d in BC and sr in BC and tstr(BC[d][1]) == tstr(BC[sr][1]) and re.fullmatch(r'\d+U?L?L?', n):
                    nn = int(n.rstrip('UL')); T0 = BC[d][1]
                    def prefix(t, nn, pd, ps, acc):
                        r = resolve(t)
                        if size_of(t) == nn: acc.append('%s = %s' % (pd, ps)); return True
                        if r.k == 'struct':
                            for i, f in enumerate(r.fs):
                                o = field_off(t, i); sz = size_of(f)
                                if o + sz <= nn: acc.append('%s.f%d = %s.f%d' % (pd, i, ps, i))
                                elif o < nn: return prefix(f, nn - o, '%s.f%d' % (pd, i), '%s.f%d' % (ps, i), acc)
                                if o + sz == nn: return True
                        return False
                    acc = []
                    if prefix(T0, nn, lvtext(BC[d][0]), lvtext(BC[sr][0]), acc): call = '; '.join(acc)
            elif nm.startswith('llvm.memset'):
                call = 'memset((void*)%s, %s, %s)' % (args[0][1], args[1][1], args[2][1])
            elif nm.startswith('llvm.umax') or nm.startswith('llvm.umin'):
                call = '(%s %s %s ? %s : %s)' % (args[0][1], '>' if 'umax' in nm else '<', args[1][1], args[0][1], args[1][1])
            elif nm.startswith('llvm.smax') or nm.startswith('llvm.smin'):
                w = resolve(args[0][0]).w
                call = '((int%d_t)%s %s (int%d_t)%s ? %s : %s)' % (w, args[0][1], '>' if 'smax' in nm else '<', w, args[1][1], args[0][1], args[1][1])
            elif nm == 'llvm.trap': call = '__CPROVER_assert(0, "trap")'
            else:
                call = '%s(%s)' % (gname(callee), ', '.join(a for _, a in args))
        else:
            fty = mk('fn', ret=rt, args=tuple(t for t, _ in args), va=False)
            touch_type(fty, out_types)
            call = '((%s*)%s)(%s)' % (fn_typedef(fty), lname(callee), ', '.join(a for _, a in args))
        if call:
            if dst and rt.k != 'void': setv(rt, call)
            else: out.append(call + ';')
        if op == 'invoke':
            p.eat('to'); p.eat('label'); n = p.next(); p.eat('unwind'); p.eat('label'); u = p.next()
            out.append('@@TERMgoto %s;' % lab(n))
    elif op == 'landingpad':
        ty = p.type(); declare(decls, dst, ty, out_types); p.i = len(p.t)
        out.append('__CPROVER_assume(0);')
    elif op in ('cleanup', 'catch', 'filter'):
        p.i = len(p.t)
    elif op == 'resume':
        p.i = len(p.t)
        out.append('@@TERM__CPROVER_assume(0);')
    elif op == 'extractvalue':
        ty = p.type(); v = operand(p, ty); e = v; cur = ty
        while p.opt(','):
            n = int(p.next()); r = resolve(cur)
            if r.k == 'struct': e += '.f%d' % n; cur = r.fs[n]
            else: e += '.a[%d]' % n; cur = r.el
        setv(cur, e)
    elif op == 'insertvalue':
        ty = p.type(); v = operand(p, ty); p.eat(','); t2 = p.type(); x = operand(p, t2); path = ''; cur = ty
        while p.opt(','):
            n = int(p.next()); r = resolve(cur)
            if r.k == 'struct': path += '.f%d' % n; cur = r.fs[n]
            else: path += '.a[%d]' % n; cur = r.el
        declare(decls, dst, ty, out_types)
        out.append('%s = %s; %s%s = %s;' % (dst, v, dst, path, x))
    elif op == 'freeze':
        ty = p.type(); setv(ty, operand(p, ty))
    else:
        raise Exception('unhandled op ' + op)

main()
