#include <stdint.h>
#include <stdlib.h>
uint32_t g_h_parse(uint8_t* in, uint32_t* out, uint32_t* nev);
void* g___cxa_allocate_exception(uint64_t n){ static char buf[64]; return buf; }
void g___cxa_throw(void*a,void*b,void*c){ __CPROVER_assert(0, "throw reached"); __CPROVER_assume(0); }
void g__ZNSt9exceptionD2Ev(void*p){}
void g__ZdlPv(void*p){}
void* g__ZTVN10__cxxabiv120__si_class_type_infoE; void* g__ZTISt9exception;
uint8_t nondet_u8(void);
void harness(void){
  uint8_t in[LEN]; for (int i=0;i<LEN;i++) in[i]=nondet_u8();
  uint32_t out=0, nev=0;
  uint32_t r = g_h_parse(in,&out,&nev);
#ifdef WITNESS
  __CPROVER_assert(!(r==1 && out==19), "witness: 1+2*3 reachable");
#endif
  __CPROVER_assert(r==0 || nev==0, "success writes nothing");
}
