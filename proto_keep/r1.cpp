#define private public
#include <ctpg/ctpg.hpp>
#undef private
using namespace ctpg; using namespace ctpg::buffers;
constexpr char pat[] = PAT;
constexpr regex::expr<pat> rx;
extern "C" __attribute__((noinline)) int h_match(const char* in, unsigned* len){
  char b[LEN+1]; for (int i=0;i<LEN;i++) b[i]=in[i]; b[LEN]=0;
  cstring_buffer<LEN+1> buf(b); utils::no_stream s;
  auto rt = regex::dfa_match(rx.sm, match_options{}, source_point{}, buf.begin(), buf.end(), s);
  *len = (unsigned)rt.len; return rt.term_idx;
}
extern "C" int h_nstates(){ return (int)rx.sm.size(); }
