#include <stdint.h>
uint32_t g_h_parse(uint8_t* in, uint32_t* out, uint32_t* nev);
void* g___cxa_allocate_exception(uint64_t n){ static char buf[64]; return buf; }
void g___cxa_throw(void*a,void*b,void*c){ __CPROVER_assert(0, "throw reached"); __CPROVER_assume(0); }
void g__ZNSt9exceptionD2Ev(void*p){} void g__ZdlPv(void*p){}
void* g__ZTVN10__cxxabiv120__si_class_type_infoE; void* g__ZTISt9exception;
uint8_t nondet_u8(void);
void harness(void){
  uint8_t in[LEN]; for (int i=0;i<LEN;i++) in[i]=nondet_u8();
  uint32_t out=0, nev=0; uint32_t r = g_h_parse(in,&out,&nev);
  int ok = (in[0]==1); for (int i=1;i<LEN-1;i++) ok = ok && in[i]==1; ok = ok && in[LEN-1]==2 && LEN>=2;   /* language: a a* b */
  __CPROVER_assert(r == (uint32_t)ok, "accepts exactly a a* b");
}
