#include "as1.c"
uint8_t* g___cxa_allocate_exception(uint64_t n){ static uint8_t buf[64]; return buf; }
void g___cxa_free_exception(uint8_t*p){}
int g_thrown = 0;
void g___cxa_throw(uint8_t*a,uint8_t*b,uint8_t*c){ g_thrown = 1; __CPROVER_assume(0); }
void g__ZNSt13runtime_errorC1EPKc(struct S_class_std__runtime_error*a, uint8_t*b){}
void g__ZNSt13runtime_errorD1Ev(struct S_class_std__runtime_error*a){}
uint8_t* g__ZTISt13runtime_error;
uint16_t nondet_u16(void); uint32_t nondet_u32(void);
#define CAP 4
#define NSTATE 3
#define NSYM 7
void harness(void){
  struct S_struct_ctpg__parser_ctpg_24 gi;     /* arbitrary grammar_info ... */
  struct A2 simple; struct A4 table;           /* ... arbitrary item sets and table */
  struct S_struct_ctpg__parser_ctpg_0 sa;      /* arbitrary analyzer state */
  sa.f0 = &gi; sa.f1 = &simple; sa.f2 = &table;
  /* representation invariant: grammar_info well-formed for the dimensions */
  for (int r = 0; r < 4; r++) { __CPROVER_assume(gi.f1.a[r].f1 < 4); __CPROVER_assume(gi.f1.a[r].f2 <= 2);
    for (int k = 0; k < 2; k++) { __CPROVER_assume(gi.f0.a[r].a[k].f0 <= 1); __CPROVER_assume(gi.f0.a[r].a[k].f1 < (gi.f0.a[r].a[k].f0 ? 4 : 3)); } }
  /* representation invariant: every vector's size within its capacity */
  for (int s = 0; s < NSTATE; s++) { __CPROVER_assume(sa.f3.a[s].f0.f1 <= CAP); for (int y = 0; y < NSYM; y++) __CPROVER_assume(sa.f3.a[s].f2.a[y].f1 <= CAP); }
  uint16_t st = nondet_u16(); uint32_t sit = nondet_u32();
  __CPROVER_assume(st < NSTATE); __CPROVER_assume(sit < 48);
  g_k_add(&sa, st, sit, 0);
#ifdef WITNESS
  __CPROVER_assert(0, "witness: end of harness reachable");
#endif
}
