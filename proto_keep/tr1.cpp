#define private public
#include <ctpg/ctpg.hpp>
#undef private
using namespace ctpg;
struct lim { static const size_t state_count_cap = 3; static const size_t max_sit_count_per_state_cap = 4; };
constexpr nterm<int> S("S"), B("B");
using P = decltype(parser(S, terms('a','b'), nterms(S,B), rules(S('a',B), B('b'), B(B,'b')), use_generated_lexer{}, lim{}));
extern "C" __attribute__((noinline)) int k_trans(P::state_analyzer* sa, unsigned short state_idx, unsigned short symbol_idx) {
  sa->transitions(state_idx, symbol_idx, sa->states[state_idx].situations_by_symbol[symbol_idx]);
  return 1;
}
