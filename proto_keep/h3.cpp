#include <ctpg/ctpg.hpp>
using namespace ctpg; using namespace ctpg::buffers;
struct tok_lexer {
  template<typename It, typename ES>
  constexpr auto match(match_options, source_point, It start, It, ES&) { unsigned char c = (unsigned char)*start; if (c >= 1 && c <= 5) return recognized_term(size16_t(c-1), 1); return recognized_term{}; }
};
namespace g {
constexpr nterm<int> E("E");
constexpr custom_term num("num", [](std::string_view sv){ return int(sv.size()); });
constexpr parser p(E, terms(num, char_term('+',1,associativity::ltor), char_term('*',2,associativity::ltor), '(', ')'), nterms(E), rules(
  E(num) >= [](int v){ return v; },
  E(E,'+',E) >= [](int a, char, int b){ return a*3+b+1; },
  E(E,'*',E) >= [](int a, char, int b){ return a*5+b+2; },
  E('(',E,')') >= [](char,int a,char){ return a; }), use_lexer<tok_lexer>{});
}
struct ev_stream { unsigned n=0; template<class T> constexpr ev_stream& operator<<(T&&){ ++n; return *this; } };
extern "C" __attribute__((noinline)) int h_parse(const char* in, int* out, unsigned* nev){
  char b[LEN+1]; for (int i=0;i<LEN;i++) b[i]=in[i]; b[LEN]=0;
  ev_stream s;
  auto r = g::p.parse(parse_options{}.set_skip_whitespace(false), cstring_buffer<LEN+1>(b), s);
  *nev = s.n;
  if (r) { *out = *r; return 1; } return 0;
}
