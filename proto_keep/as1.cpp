#define private public
#include <ctpg/ctpg.hpp>
#undef private
using namespace ctpg;
struct lim { static const size_t state_count_cap = 3; static const size_t max_sit_count_per_state_cap = 4; };
constexpr nterm<int> S("S"), B("B");
using P = decltype(parser(S, terms('a','b'), nterms(S,B), rules(S('a',B), B('b'), B(B,'b')), use_generated_lexer{}, lim{}));
// one add_situation step from a caller-supplied analyzer state (the harness fills *sa with arbitrary bytes
// subject to the representation invariant) 
extern "C" __attribute__((noinline)) int k_add(P::state_analyzer* sa, unsigned short state_idx, unsigned sit_idx, int to_kernel) {
  return sa->add_situation(state_idx, sit_idx, to_kernel != 0);
}
extern "C" unsigned k_sizeof_sa() { return sizeof(P::state_analyzer); }
extern "C" unsigned k_addr_space() { return P::situation_address_space_size; }
