#!/bin/bash
GB=$1; L=$2; D=$3; shift 3
US="g_h_parse.0:2,g_h_parse.1:2,g_h_parse.2:2,g_h_parse.3:3,g_h_parse.4:3,g_h_parse.5:$D,harness.0:$((L+1))"
ulimit -v 30000000
( /usr/bin/time -f "$GB L=$L D=$D [$*] wall=%es rss=%MKB" timeout 1800 cbmc $GB --function harness --unwindset $US --unwinding-assertions --drop-unused-functions --no-standard-checks --slice-formula "$@" --verbosity 8 2>&1 | grep -vE "^(Unwinding|Not unwinding)" | grep -E "VERIFICATION|variables|Runtime (Symex|Solver|Convert)|unwinding assertion.*FAIL|wall=|FAILURE|ERROR" | cut -c1-150 | head -12 ) 2>&1 | tr '\n' ' '; echo
