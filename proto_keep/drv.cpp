#include <cstdio>
#include <cstring>
extern "C" int h_parse5(const char* in, int* out, unsigned* nev);
int main(int argc,char**argv){ char b[6]="     "; memcpy(b, argv[1], strlen(argv[1])>5?5:strlen(argv[1])); int out=0; unsigned nev=0; int r=h_parse5(b,&out,&nev); printf("%u %d %u\n", r, r?out:0, nev); }
