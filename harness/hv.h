// C++ side of the harness: includes the real header with private members visible, a recording error
// stream, functor instrumentation.  Everything here is harness code, not code under test.
#ifndef VERIF_HV_H
#define VERIF_HV_H
#include <cstddef>
#include <cstdint>
#include <string_view>
#include <string>
#include <vector>
#include <optional>
#include <variant>
#include <tuple>
#include <utility>
#include <type_traits>
#include <stdexcept>
#include <ostream>
#include <algorithm>
#include <limits>
#include <array>
#define private public
#define protected public
#include <ctpg/ctpg.hpp>
#undef private
#undef protected
#include "obs.h"

namespace hv {

struct msg { unsigned kind, line, col, a, b, nint; };

// loop-free classification of the string literals the library streams (N includes the terminating NUL)
template<std::size_t N>
inline unsigned classify(const char (&s)[N], bool& ends)
{
    ends = (N >= 2 && s[N - 2] == '\n');
    if constexpr (N >= 10) {
        if (s[1] == 'P') {
            char c8 = s[8], c9 = s[9];
            if (c8 == 'S') return c9 == 'h' ? M_SHIFT : c9 == 'y' ? M_SYNTAX_ERROR : c9 == 'u' ? M_SUCCESS : M_OTHER;
            if (c8 == 'G') return M_GOTO;
            if (c8 == 'C') return M_COULD_NOT_RECOVER;
            if (c8 == 'U') return M_UNEXPECTED_CHAR;
            if (c8 == 'R') {
                if (c9 == '/') return M_RR_CONFLICT;
                if constexpr (N >= 17) {
                    if (s[10] == 'd') return M_REDUCE;
                    if (s[12] == 'g') return M_RECOGNIZED;
                    if (s[12] == 'v') return s[15] == 'i' ? M_RECOVERING_TO : s[15] == 'y' ? M_CONSUMING : M_OTHER;
                }
                return M_OTHER;
            }
            if constexpr (N >= 19) {
                if (c8 == 'E') return s[17] == 'r' ? M_ENTER_RECOVERY : s[17] == 'c' ? M_ENTER_CONSUME : M_OTHER;
                if (c8 == 'L') return s[16] == 'r' ? M_LEAVE_RECOVERY : s[16] == 'c' ? M_LEAVE_CONSUME : M_OTHER;
            }
            return M_OTHER;
        }
        if constexpr (N >= 16) {
            if (s[1] == 'R' && s[2] == 'E') return s[14] == 'R' ? M_RX_RECOGNIZED : s[14] == 'C' ? M_RX_CHAR : s[14] == 'N' ? M_RX_STATE : M_OTHER;
            if (s[1] == 'L' && s[2] == 'E') return M_LEX_RECOGNIZED;
        }
    }
    return 0xffffu;   // fragment (", term: ", "'", "\n", " <- ", ...)
}

// recording error stream.  A message starts when a source_point is streamed and ends at a literal ending in '\n'.
struct rec
{
    msg m[MAXMSG] = {};
    unsigned n = 0, overflow = 0, writes = 0;
    bool open = false;
    msg cur = {};
    const char* const* names = nullptr; unsigned nnames = 0;

    void close() {
        if (!open) return;
        open = false;
        if (cur.kind == M_RECOGNIZED && cur.a == nnames - 2) return;   // the end-of-input term is re-announced at every step; not part of the compared log
        if (cur.kind >= M_RX_RECOGNIZED) return;                        // lexer-internal trace lines
        if (n < MAXMSG) m[n++] = cur; else overflow = 1;
    }
    unsigned name_to_term(const char* s) const {
        for (unsigned i = 0; i < nnames; ++i) if (names[i] == s) return i;
        return 0xfffe;
    }
    void put_int(unsigned v) { if (cur.nint == 0) cur.a = v; else if (cur.nint == 1) cur.b = v; cur.nint++; }

    template<typename T>
    rec& operator<<(T&& v)
    {
        using U = std::remove_cv_t<std::remove_reference_t<T>>;
        ++writes;
        if constexpr (std::is_same_v<U, ctpg::source_point>) {
            close(); cur = msg{}; cur.kind = 0xffffu; cur.line = v.line; cur.col = v.column; open = true;
        } else if constexpr (std::is_array_v<U>) {
            bool ends = false; unsigned k = classify(v, ends);
            if (!open) { cur = msg{}; cur.kind = 0xffffu; open = true; }
            if (k != 0xffffu && cur.kind == 0xffffu) cur.kind = k;
            if (ends) { if (cur.kind == 0xffffu) cur.kind = M_OTHER; close(); }
        } else if constexpr (std::is_same_v<U, const char*> || std::is_same_v<U, char*>) {
            if (open && (cur.kind == M_SYNTAX_ERROR || cur.kind == M_RECOGNIZED || cur.kind == M_CONSUMING)) put_int(name_to_term(v));
        } else if constexpr (std::is_same_v<U, std::string_view>) {
            if (open) put_int((unsigned)v.size() | (v.size() ? ((unsigned)(unsigned char)v[0] << 16) : 0));
        } else if constexpr (std::is_integral_v<U>) {
            if (open) put_int((unsigned)(std::make_unsigned_t<U>)v);
        }
        return *this;
    }
    void flush(uint32_t* out) {
        close();
        out[O_NMSG] = n;
        for (unsigned i = 0; i < MAXMSG; ++i) {
            out[O_MSG0 + MSG_SLOTS * i + 0] = m[i].kind; out[O_MSG0 + MSG_SLOTS * i + 1] = m[i].line; out[O_MSG0 + MSG_SLOTS * i + 2] = m[i].col;
            out[O_MSG0 + MSG_SLOTS * i + 3] = m[i].a; out[O_MSG0 + MSG_SLOTS * i + 4] = m[i].b;
        }
        if (overflow) out[O_FLAGS] |= 1u;
    }
};

// hashing recorder for verbose traces: no message array, a rolling hash over (kind, line, col, argument) and the
// sequence of state numbers printed by shift / goto / recovering-to messages (compared up to a bijection by the oracle)
#ifndef MAXST
#define MAXST 8
#endif
struct hrec
{
    unsigned h = 2166136261u, n = 0, nst = 0, overflow = 0, writes = 0;
    unsigned st[MAXST] = {};
    bool open = false;
    msg cur = {};
    const char* const* names = nullptr; unsigned nnames = 0;
    static unsigned mix(unsigned h, unsigned v) { return ((h << 5) | (h >> 27)) + v + 0x9e3779b9u; }   // add/rotate: cheap to bit-blast; collisions can only hide, never raise, an alarm
    void close() {
        if (!open) return;
        if ((cur.kind == M_RECOGNIZED && cur.a == nnames - 2) || cur.kind >= M_RX_RECOGNIZED) { open = false; return; }
        bool stk = (cur.kind == M_SHIFT || cur.kind == M_GOTO || cur.kind == M_RECOVERING_TO);
        h = mix(mix(mix(h, cur.kind), cur.line), cur.col);
        if (stk) { if (nst < MAXST) st[nst++] = cur.a; else overflow = 1; h = mix(h, cur.kind == M_SHIFT ? cur.b : 0u); }
        else h = mix(h, cur.a);
        n++; open = false;
    }
    unsigned name_to_term(const char* s) const {
        for (unsigned i = 0; i < nnames; ++i) if (names[i] == s) return i;
        return 0xfffe;
    }
    void put_int(unsigned v) { if (cur.nint == 0) cur.a = v; else if (cur.nint == 1) cur.b = v; cur.nint++; }
    template<typename T>
    hrec& operator<<(T&& v)
    {
        using U = std::remove_cv_t<std::remove_reference_t<T>>;
        ++writes;
        if constexpr (std::is_same_v<U, ctpg::source_point>) {
            close(); cur = msg{}; cur.kind = 0xffffu; cur.line = v.line; cur.col = v.column; open = true;
        } else if constexpr (std::is_array_v<U>) {
            bool ends = false; unsigned k = classify(v, ends);
            if (!open) { cur = msg{}; cur.kind = 0xffffu; open = true; }
            if (k != 0xffffu && cur.kind == 0xffffu) cur.kind = k;
            if (ends) { if (cur.kind == 0xffffu) cur.kind = M_OTHER; close(); }
        } else if constexpr (std::is_same_v<U, const char*> || std::is_same_v<U, char*>) {
            if (open && (cur.kind == M_SYNTAX_ERROR || cur.kind == M_RECOGNIZED || cur.kind == M_CONSUMING)) put_int(name_to_term(v));
            else if (open && cur.kind == M_SHIFT) put_int(0xffffffffu);   // shift of the error token prints its name
        } else if constexpr (std::is_same_v<U, std::string_view>) {
            if (open) put_int((unsigned)v.size() | (v.size() ? ((unsigned)(unsigned char)v[0] << 16) : 0));
        } else if constexpr (std::is_integral_v<U>) {
            if (open) put_int((unsigned)(std::make_unsigned_t<U>)v);
        }
        return *this;
    }
    void flush(uint32_t* out) {
        close();
        out[O_NMSG] = n; out[O_AUX + 0] = h; out[O_AUX + 1] = nst;
        for (unsigned i = 0; i < MAXST; ++i) out[O_AUX + 2 + i] = st[i];
        if (overflow) out[O_FLAGS] |= 1u;
    }
};

// functor instrumentation (harness state; excluded from the write-set check by the hv_ prefix)
struct state {
    unsigned nred, red[MAXRED], nterm, tline[MAXTERM], tcol[MAXTERM], tval[MAXTERM], flags, moves;
};
extern state hv_S;
inline void reset() { hv_S = state{}; }
inline void log_red(unsigned r) { if (hv_S.nred < MAXRED) hv_S.red[hv_S.nred++] = r; else hv_S.flags |= 2u; }
inline unsigned seen_term(const ctpg::term_value<unsigned>& t) {
    if (hv_S.nterm < MAXTERM) { hv_S.tline[hv_S.nterm] = t.get_line(); hv_S.tcol[hv_S.nterm] = t.get_column(); hv_S.tval[hv_S.nterm] = t.get_value(); hv_S.nterm++; }
    else hv_S.flags |= 4u;
    return t.get_value();
}
struct trk; inline unsigned arg(const trk& t); struct ctrk; inline unsigned arg(const ctrk& t); struct agg; inline unsigned arg(const agg& t);
inline unsigned arg(unsigned v) { return v; }
inline unsigned arg(const ctpg::term_value<unsigned>& t) { return seen_term(t); }
// rule value: ((..((R*P + a1)*P + a2)..)*P + ak), R = 7919*(rule+1), P = 31 (mod 2^32)
template<typename... A>
inline unsigned red(unsigned rule, const A&... a) {
    unsigned h = 7919u * (rule + 1);
    ((h = h * 31u + arg(a)), ...);
    log_red(rule);
    return h;
}
// term value from the lexeme: 1000003*(term+1) + 31*first byte + 7*len
inline unsigned term_value_of(unsigned term, std::string_view sv) {
    return 1000003u * (term + 1) + 31u * (sv.size() ? (unsigned)(unsigned char)sv[0] : 0u) + 7u * (unsigned)sv.size();
}
// generated-lexer terms: turn the library's term_value<char / string_view> into the harness' unsigned value, keeping the source point
inline ctpg::term_value<unsigned> tv(unsigned term, const ctpg::term_value<char>& t) { char c = t.get_value(); return ctpg::term_value<unsigned>(term_value_of(term, std::string_view(&c, 1)), t.get_sp()); }
inline ctpg::term_value<unsigned> tv(unsigned term, const ctpg::term_value<std::string_view>& t) { return ctpg::term_value<unsigned>(term_value_of(term, t.get_value()), t.get_sp()); }
inline void flush(uint32_t* out) {
    out[O_NRED] = hv_S.nred; out[O_NTERM] = hv_S.nterm; out[O_FLAGS] |= hv_S.flags;
    for (unsigned i = 0; i < MAXRED; ++i) out[O_RED0 + i] = hv_S.red[i];
    for (unsigned i = 0; i < MAXTERM; ++i) { out[O_TERM0 + TERM_SLOTS * i] = hv_S.tline[i]; out[O_TERM0 + TERM_SLOTS * i + 1] = hv_S.tcol[i]; out[O_TERM0 + TERM_SLOTS * i + 2] = hv_S.tval[i]; }
}

// ---- tracked move-only semantic value (C14): copying does not compile; using or moving a moved-from value is flagged
struct trk {
    unsigned v = 0, st = 0;                 // st: 0 never assigned, 1 live, 2 moved-from
    trk() = default;
    explicit trk(unsigned v) : v(v), st(1) {}
    trk(const trk&) = delete; trk& operator=(const trk&) = delete;
    trk(trk&& o) : v(o.v), st(o.st) { if (o.st != 1) hv_S.flags |= 16u; o.st = 2; hv_S.moves++; }
    trk& operator=(trk&& o) { if (o.st != 1) hv_S.flags |= 16u; v = o.v; st = o.st; o.st = 2; hv_S.moves++; return *this; }
};
inline unsigned arg(const trk& t) { if (t.st != 1) hv_S.flags |= 16u; return t.v; }
// copyable variant: a copy is legal C++ but must not happen on the value path; it is counted
struct ctrk {
    unsigned v = 0, st = 0;
    ctrk() = default;
    explicit ctrk(unsigned v) : v(v), st(1) {}
    ctrk(const ctrk& o) : v(o.v), st(o.st) { hv_S.flags |= 32u; }
    ctrk& operator=(const ctrk& o) { v = o.v; st = o.st; hv_S.flags |= 32u; return *this; }
    ctrk(ctrk&& o) : v(o.v), st(o.st) { if (o.st != 1) hv_S.flags |= 16u; o.st = 2; hv_S.moves++; }
    ctrk& operator=(ctrk&& o) { if (o.st != 1) hv_S.flags |= 16u; v = o.v; st = o.st; o.st = 2; hv_S.moves++; return *this; }
};
inline unsigned arg(const ctrk& t) { if (t.st != 1) hv_S.flags |= 16u; return t.v; }
template<typename VT, typename... A> inline VT redv(unsigned rule, const A&... a) { return VT(red(rule, a...)); }
template<typename... A>
inline trk redt(unsigned rule, const A&... a) { return trk(red(rule, a...)); }
// ---- aggregate nonterminal value (C02, rules WITHOUT functor with several right-side symbols): constructible from any right side;
//      one argument: that value; several: 0xD00D folded with *31 + value, in order
struct agg {
    unsigned v = 0;
    agg() = default;
    agg(unsigned x) : v(x) {}
    agg(const ctpg::term_value<unsigned>& t) : v(t.get_value()) {}
    template<typename A0, typename A1, typename... A> agg(const A0& a0, const A1& a1, const A&... a) : v(0xD00Du) { v = v * 31u + val(a0); v = v * 31u + val(a1); ((v = v * 31u + val(a)), ...); }
    static unsigned val(unsigned x) { return x; }
    static unsigned val(const agg& x) { return x.v; }
    static unsigned val(const ctpg::term_value<unsigned>& t) { return t.get_value(); }
};
inline unsigned arg(const agg& t) { return t.v; }
// ---- contexts (C13)
struct ctx_t { unsigned counter = 0; unsigned tag = 0; };
struct mo_ctx { unsigned counter = 0; unsigned tag = 0; mo_ctx() = default; mo_ctx(const mo_ctx&) = delete; mo_ctx& operator=(const mo_ctx&) = delete; mo_ctx(mo_ctx&&) = default; };
extern const void* hv_ctx_addr;      // address of the object the caller supplied
extern unsigned hv_ctx_tag;
template<typename C> inline void ctx_touch(C& c) {
    if (hv_ctx_addr && (const void*)&c != hv_ctx_addr) hv_S.flags |= 8u;      // not the very object the caller supplied
    if (c.tag != hv_ctx_tag) hv_S.flags |= 8u;
    if constexpr (!std::is_const_v<C>) c.counter++;
}
template<typename T> struct is_ctx : std::false_type {};
template<> struct is_ctx<ctx_t> : std::true_type {};
template<> struct is_ctx<mo_ctx> : std::true_type {};
// a functor that can be called with or without the context: being called WITHOUT it although attached with >>= is flagged
template<unsigned R> struct ctxf {
    template<typename C, typename... A, typename = std::enable_if_t<is_ctx<std::remove_cv_t<std::remove_reference_t<C>>>::value>>
    unsigned operator()(C&& c, const A&... a) const { ctx_touch(c); return red(R, a...); }
    template<typename... A> unsigned operator()(const A&... a) const { hv_S.flags |= 8u; return red(R, a...); }
};
// ---- custom lexer driven by harness-chosen answers (C18): the answer to a request at offset k is (idx[k], len[k])
#ifndef LEXMAX
#define LEXMAX 8
#endif
struct lex_state { const char* base; unsigned idx[LEXMAX], len[LEXMAX], calls, hash, bad; };
extern lex_state hv_L;
struct ans_lexer {
    template<typename It, typename ES>
    constexpr auto match(ctpg::match_options, ctpg::source_point sp, It start, It end, ES&) {
        unsigned pos = (unsigned)(start.ptr - hv_L.base);
        // offset AND the source point handed to the lexer go into the hash: both must be those of the position where the term is needed
        hv_L.calls++; hv_L.hash = ((hv_L.hash << 5) | (hv_L.hash >> 27)) + pos + 0x9e3779b9u + ((unsigned)sp.line << 8) + ((unsigned)sp.column << 16);
        if (pos >= LEXMAX) { hv_L.bad = 1; return ctpg::recognized_term{}; }
        if (hv_L.idx[pos] == 0xffffu) return ctpg::recognized_term{};
        return ctpg::recognized_term(ctpg::size16_t(hv_L.idx[pos]), hv_L.len[pos]);
    }
};
// ---- a caller buffer that is a slice of larger storage: N bytes of text followed by bytes that are NOT part of the buffer (not NUL).
//      Reading at or beyond end() is flagged.  The stack types are specialised like cstring_buffer's so that the fixed-size stacks are used.
template<std::size_t N> struct slice_buf {
    char data[N + 2] = {};
    struct iterator {
        const char* ptr; const char* lim;
        char operator *() const { if (ptr >= lim) hv_S.flags |= 64u; return *ptr; }
        iterator& operator ++() { ++ptr; return *this; }
        iterator operator ++(int) { iterator i(*this); ++ptr; return i; }
        bool operator == (const iterator& o) const { return ptr == o.ptr; }
        bool operator != (const iterator& o) const { return ptr != o.ptr; }
        iterator& operator += (std::size_t len) { ptr += len; return *this; }
        iterator operator + (std::size_t len) const { iterator i(*this); i.ptr += len; return i; }
    };
    iterator begin() const { return iterator{ data, data + N }; }
    iterator end() const { return iterator{ data + N, data + N }; }
    std::string_view get_view(iterator s, iterator e) const { return std::string_view(s.ptr, e.ptr - s.ptr); }
};
// token-level custom lexer: byte 'a'+k is term k (k < NT), length 1; anything else: no match
template<unsigned NT>
struct tok_lexer {
    template<typename It, typename ES>
    constexpr auto match(ctpg::match_options, ctpg::source_point, It start, It, ES&) {
        unsigned char c = (unsigned char)*start;
        if (c >= 'a' && c < 'a' + NT) return ctpg::recognized_term(ctpg::size16_t(c - 'a'), 1);
        return ctpg::recognized_term{};
    }
};
}
namespace ctpg { namespace detail {
template<std::size_t N, std::size_t E> struct parse_table_cursor_stack_type<hv::slice_buf<N>, E> { using type = stdex::cvector<size16_t, N + E + 2>; };
template<std::size_t N, std::size_t E, typename V> struct parser_value_stack_type<hv::slice_buf<N>, E, V, std::enable_if_t<stdex::is_cvector_compatible<V>::value>> { using type = stdex::cvector<V, N + E + 2>; };
} }
#endif
