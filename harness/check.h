/* CHECK: property assertion; CHECK_M: machinery self-check (a failure is 'inconclusive', never a violation) */
#ifndef VERIF_CHECK_H
#define VERIF_CHECK_H
#ifdef __CPROVER__
#define CHECK(c, msg) __CPROVER_assert((c), "PROP: " msg)
#define CHECK_M(c, msg) __CPROVER_assert((c), msg)
#define WITNESS(c, msg) __CPROVER_assert(!(c), "WITNESS: " msg)
#else
#include <stdio.h>
extern int check_failures; extern const char* check_first;
#define CHECK(c, msg) do { if (!(c)) { if (!check_failures) check_first = "PROP: " msg; check_failures++; } } while (0)
#define CHECK_M(c, msg) do { if (!(c)) { if (!check_failures) check_first = msg; check_failures++; } } while (0)
#define WITNESS(c, msg) do { } while (0)
#endif
#endif
