/* Reference LR interpreter + oracle comparisons (plain C, used both under CBMC and natively).
 * Tables REF_* come from gen/lr1.py (textbook canonical LR(1), README precedence rules).
 * Lexing comes from ref_lex() which the including file defines (token-level or reference-DFA based).
 * Written from the README: whitespace sets, 1-based line/column rule, messages, error recovery algorithm. */
#ifndef VERIF_REF_LR_H
#define VERIF_REF_LR_H
#include <stdint.h>
#include "obs.h"
#include "check.h"

#ifndef RSTK
#define RSTK (3 * LEN + 6)
#endif
#ifndef RSTEPS
#define RSTEPS (8 * LEN + 12)
#endif
#define RMAXMSG MAXMSG

enum { RA_ERR = 0, RA_SHIFT = 1, RA_REDUCE = 2, RA_ACC = 3, RA_RR = 4 };
enum { RF_HASH = 0, RF_DEFAULT = 1, RF_E1 = 2, RF_E2 = 3, RF_E3 = 4, RF_CTXHASH = 5 };

struct ref_msg { uint32_t kind, line, col, a, b; };
struct ref_out {
  uint32_t ok, value, nmsg, nred, nterm, nctx;
  uint32_t flags;         /* 1 msg overflow, 2 red overflow, 4 term overflow, 8 stack overflow, 16 step overflow, 32 rr conflict met */
  uint32_t discarded_states, discarded_terms, nshift;
  uint32_t h, nst, st[MAXST];   /* hashed event log (HASHLOG mode) */
  struct ref_msg msg[RMAXMSG];
  uint32_t red[MAXRED];
  uint32_t tline[MAXTERM], tcol[MAXTERM], tval[MAXTERM];
};

static int ref_lex(const uint8_t* in, unsigned n, unsigned pos, unsigned* term, unsigned* len);
#ifndef REF_LEX_SP   /* the source point at which the lexer is asked (after whitespace skipping): what a custom lexer receives as its sp argument */
static uint32_t ref_lex_line, ref_lex_col;
#endif

static inline int ref_is_ws(uint8_t c, int skip_nl) {
  return c == 9 || c == 11 || c == 12 || c == 13 || c == 32 || (skip_nl && c == 10);
}
static inline void ref_advance(const uint8_t* in, unsigned from, unsigned to, uint32_t* line, uint32_t* col) {
  for (unsigned i = from; i < to; i++) { if (in[i] == '\n') { (*line)++; *col = 1; } else (*col)++; }
}
static inline uint32_t ref_mix(uint32_t h, uint32_t v) { return ((h << 5) | (h >> 27)) + v + 0x9e3779b9u; }
static inline void ref_putmsg(struct ref_out* o, uint32_t kind, uint32_t line, uint32_t col, uint32_t a, uint32_t b) {
#ifdef HASHLOG
  int stk = (kind == M_SHIFT || kind == M_GOTO || kind == M_RECOVERING_TO);
  o->h = ref_mix(ref_mix(ref_mix(o->h, kind), line), col);
  if (stk) { if (o->nst < MAXST) { o->st[o->nst] = a; o->nst++; } else o->flags |= 1u; o->h = ref_mix(o->h, kind == M_SHIFT ? b : 0u); }
  else o->h = ref_mix(o->h, a);
  o->nmsg++;
  return;
#endif
  if (o->nmsg < RMAXMSG) { struct ref_msg m = { kind, line, col, a, b }; o->msg[o->nmsg] = m; o->nmsg++; } else o->flags |= 1u;
}
static inline uint32_t ref_term_value(unsigned term, const uint8_t* in, unsigned pos, unsigned len) {
  return 1000003u * (term + 1) + 31u * (len ? (uint32_t)in[pos] : 0u) + 7u * len;
}

static void ref_parse(const uint8_t* in, unsigned n, int opt_ws, int opt_nl, int verbose, struct ref_out* o)
{
  unsigned st[RSTK]; uint32_t val[RSTK], vline[RSTK], vcol[RSTK]; unsigned sp = 0;
  unsigned pos = 0; uint32_t line = 1, col = 1;
  int have = 0, recovery = 0, consume = 0; unsigned term = 0, tlen = 0;
  struct ref_out z = {0}; *o = z; o->h = 2166136261u;
  st[0] = 0; val[0] = 0; vline[0] = 0; vcol[0] = 0;
  for (unsigned step = 0; step < RSTEPS; step++) {
    unsigned la;
    if (recovery) la = REF_NT + 1;
    else {
      if (!have) {
        if (opt_ws) { unsigned p2 = pos; while (p2 < n && ref_is_ws(in[p2], opt_nl)) p2++; ref_advance(in, pos, p2, &line, &col); pos = p2; }
        if (pos == n) { term = REF_NT; tlen = 0; }
        else if ((ref_lex_line = line, ref_lex_col = col, !ref_lex(in, n, pos, &term, &tlen))) { ref_putmsg(o, M_UNEXPECTED_CHAR, line, col, in[pos], 0); o->ok = 0; return; }
        else if (verbose) ref_putmsg(o, M_RECOGNIZED, line, col, term, 0);
        have = (pos != n);   /* the end-of-input term is re-derived at every step, it occupies no input */
      }
      la = term;
    }
    unsigned s = st[sp];
    unsigned act = REF_act[s][la], arg = REF_arg[s][la];
    if (act == RA_ERR) {
      if (consume) {
        if (term == REF_NT) { o->ok = 0; return; }
        if (verbose) ref_putmsg(o, M_CONSUMING, line, col, term, 0);
        ref_advance(in, pos, pos + tlen, &line, &col); pos += tlen; have = 0; o->discarded_terms++;
        continue;
      }
      if (!recovery) {
        ref_putmsg(o, M_SYNTAX_ERROR, line, col, term, 0);
        if (verbose) ref_putmsg(o, M_ENTER_RECOVERY, line, col, 0, 0);
        recovery = 1;
        continue;   /* the error token is now presented to the current state first (README: states are popped *until* one accepts it) */
      }
      /* the top state cannot act on the error token: discard it */
      if (sp == 0) { if (verbose) ref_putmsg(o, M_COULD_NOT_RECOVER, line, col, 0, 0); o->ok = 0; return; }
      sp--; o->discarded_states++;
      if (verbose) ref_putmsg(o, M_RECOVERING_TO, line, col, st[sp], 0);
      continue;
    }
    if (consume) { consume = 0; if (verbose) ref_putmsg(o, M_LEAVE_CONSUME, line, col, 0, 0); }
    if (act == RA_SHIFT) {
      if (sp + 1 >= RSTK) { o->flags |= 8u; return; }
      if (la == REF_NT + 1) {
        if (verbose) ref_putmsg(o, M_SHIFT, line, col, arg, 0xffffffffu);
        sp++; st[sp] = arg; val[sp] = 0; vline[sp] = line; vcol[sp] = col;
        if (verbose) ref_putmsg(o, M_LEAVE_RECOVERY, line, col, 0, 0);
        recovery = 0;
        if (verbose) ref_putmsg(o, M_ENTER_CONSUME, line, col, 0, 0);
        consume = 1;
      } else {
        if (verbose) ref_putmsg(o, M_SHIFT, line, col, arg, tlen | (tlen ? ((uint32_t)in[pos] << 16) : 0));
        sp++; st[sp] = arg; val[sp] = ref_term_value(term, in, pos, tlen); vline[sp] = line; vcol[sp] = col;
        ref_advance(in, pos, pos + tlen, &line, &col); pos += tlen; have = 0; o->nshift++;
      }
    } else if (act == RA_REDUCE) {
      unsigned r = arg, k = REF_rule_len[r], f = REF_rule_f[r], tm = REF_rule_tmask[r];
      if (verbose) ref_putmsg(o, M_REDUCE, line, col, r, 0);
      if (k > sp) { o->flags |= 8u; return; }
      uint32_t v;
      unsigned base = sp - k;
      if (f == RF_HASH || f == RF_CTXHASH) {
        v = 7919u * (r + 1);
        for (unsigned i = 1; i <= k; i++) {
          v = v * 31u + val[base + i];
          if ((tm >> (i - 1)) & 1u) {
            if (o->nterm < MAXTERM) { o->tline[o->nterm] = vline[base + i]; o->tcol[o->nterm] = vcol[base + i]; o->tval[o->nterm] = val[base + i]; o->nterm++; } else o->flags |= 4u;
          }
        }
        if (o->nred < MAXRED) { o->red[o->nred] = r; o->nred++; } else o->flags |= 2u;
        if (f == RF_CTXHASH) o->nctx++;
      } else if (f == RF_DEFAULT) {
        /* no functor: the left-side value is constructed from the right-side values in order */
        if (k == 0) v = 0; else if (k == 1) v = val[base + 1];
        else { v = 0xD00Du; for (unsigned i = 1; i <= k; i++) v = v * 31u + val[base + i]; }
      }
      else v = val[base + (f - RF_E1) + 1];
      sp = base;
      unsigned g = REF_goto[st[sp]][REF_rule_lhs[r]];
      if (verbose) ref_putmsg(o, M_GOTO, line, col, g, 0);
      if (sp + 1 >= RSTK) { o->flags |= 8u; return; }
      sp++; st[sp] = g; val[sp] = v; vline[sp] = line; vcol[sp] = col;
    } else if (act == RA_ACC) {
      if (verbose) ref_putmsg(o, M_SUCCESS, line, col, 0, 0);
      o->ok = 1; o->value = val[1]; return;
    } else { o->flags |= 32u; return; }
  }
  o->flags |= 16u;
}

/* ------------------------------------------------------------------ oracle comparisons */
static void ora_machinery(const uint32_t* out, const struct ref_out* r) {
  CHECK_M((r->flags & (1u | 2u | 4u | 8u | 16u)) == 0, "MACHINERY: reference interpreter ran out of its own bounds");
  CHECK_M((out[O_FLAGS] & 7u) == 0, "MACHINERY: recorder log overflow");
}
static void ora_accept(const uint32_t* out, const struct ref_out* r) {
  CHECK(out[O_THROWN] == 0, "parse must not throw");
  CHECK((out[O_OK] != 0) == (r->ok != 0), "accepts exactly the language of the grammar");
}
static void ora_value(const uint32_t* out, const struct ref_out* r) {
  if (r->ok && out[O_OK]) {
    CHECK(out[O_VALUE] == r->value, "result equals bottom-up evaluation of the derivation tree");
    CHECK(out[O_NRED] == r->nred, "each rule functor called exactly once per tree node");
    for (unsigned i = 0; i < MAXRED; i++) if (i < r->nred) CHECK(out[O_RED0 + i] == r->red[i], "functors called in post-order of the derivation tree");
    CHECK(out[O_NTERM] == r->nterm, "each term value handed to exactly one functor");
    for (unsigned i = 0; i < MAXTERM; i++) if (i < r->nterm) CHECK(out[O_TERM0 + TERM_SLOTS * i + 2] == r->tval[i], "term values are the term functor applied to the lexeme");
  }
}
static void ora_positions(const uint32_t* out, const struct ref_out* r) {
  if (r->ok && out[O_OK] && out[O_NTERM] == r->nterm)
    for (unsigned i = 0; i < MAXTERM; i++) if (i < r->nterm) {
      CHECK(out[O_TERM0 + TERM_SLOTS * i] == r->tline[i], "term value carries the true line");
      CHECK(out[O_TERM0 + TERM_SLOTS * i + 1] == r->tcol[i], "term value carries the true column");
    }
}
/* hashed verbose trace: same number of events, same rolling hash over (kind, line, column, argument), and the printed state numbers
   correspond one-to-one to the reference states */
static void ora_trace_hash(const uint32_t* out, const struct ref_out* r) {
  CHECK(out[O_NMSG] == r->nmsg, "verbose trace has as many events as the actions performed");
  CHECK(out[O_AUX] == r->h, "verbose trace events (kind, position, term / rule / lexeme) are exactly the reference action sequence");
  CHECK(out[O_AUX + 1] == r->nst, "as many state numbers printed as shifts / gotos / recoveries performed");
  uint16_t r2s[REF_NSTATES + 1], s2r[REF_NSTATES + 1];
  for (unsigned i = 0; i <= REF_NSTATES; i++) { r2s[i] = 0xffff; s2r[i] = 0xffff; }
  if (out[O_AUX + 1] == r->nst)
    for (unsigned i = 0; i < MAXST; i++) if (i < r->nst) {
      unsigned rs = out[O_AUX + 2 + i], ss = r->st[i];
      CHECK(rs < REF_NSTATES, "state number in trace within the table");
      if (rs < REF_NSTATES) {
        if (r2s[rs] == 0xffff && s2r[ss] == 0xffff) { r2s[rs] = (uint16_t)ss; s2r[ss] = (uint16_t)rs; }
        CHECK(r2s[rs] == ss && s2r[ss] == rs, "trace states correspond one-to-one to reference states");
      }
    }
}
/* message logs equal; state numbers (M_SHIFT/M_GOTO/M_RECOVERING_TO argument a) compared up to a bijection */
static void ora_messages(const uint32_t* out, const struct ref_out* r, int compare_states) {
  CHECK(out[O_NMSG] == r->nmsg, "same number of messages as the reference");
  uint16_t r2s[REF_NSTATES + 1], s2r[REF_NSTATES + 1];
  for (unsigned i = 0; i <= REF_NSTATES; i++) { r2s[i] = 0xffff; s2r[i] = 0xffff; }
  if (out[O_NMSG] == r->nmsg)
    for (unsigned i = 0; i < RMAXMSG; i++) if (i < r->nmsg) {
      const uint32_t* m = out + O_MSG0 + MSG_SLOTS * i; const struct ref_msg* x = &r->msg[i];
      CHECK(m[0] == x->kind, "message kind as the reference");
      CHECK(m[1] == x->line && m[2] == x->col, "message carries the true line and column");
      if (m[0] == x->kind) {
        if (x->kind == M_SHIFT || x->kind == M_GOTO || x->kind == M_RECOVERING_TO) {
          if (compare_states) {
            unsigned rs = m[3], ss = x->a;
            CHECK(rs < REF_NSTATES, "state number in trace within the table");
            if (rs < REF_NSTATES) {
              if (r2s[rs] == 0xffff && s2r[ss] == 0xffff) { r2s[rs] = (uint16_t)ss; s2r[ss] = (uint16_t)rs; }
              CHECK(r2s[rs] == ss && s2r[ss] == rs, "trace states correspond one-to-one to reference states");
            }
          }
          if (x->kind == M_SHIFT && x->b != 0xffffffffu) CHECK(m[4] == x->b, "shift trace shows the lexeme");
        } else CHECK(m[3] == x->a, "message argument (term / byte / rule) as the reference");
      }
    }
}
#endif
