/* native shims so that the translated C also links and runs outside CBMC (translation validation) */
#ifndef VERIF_RT_H
#define VERIF_RT_H
#ifndef __CPROVER__
int check_failures = 0; const char* check_first = 0;
void __CPROVER_assert(int c, const char* m) { if (!c) { if (!check_failures) check_first = m; check_failures++; } }
void __CPROVER_assume(int c) { if (!c) { if (!check_failures) check_first = "ASSUME(0) reached"; check_failures++; } }
#ifndef WS_HEADER
void ws_check(void* p) { (void)p; }   /* write-set instrumentation is a no-op outside CBMC */
#endif
#endif
#endif
