// a user buffer (documented Buffer concept: begin(), end(), get_view(), iterator) over a char array with an explicit length
#ifndef VERIF_RXBUF_H
#define VERIF_RXBUF_H
#include <string_view>
#include <cstddef>
#include <type_traits>
namespace hv {
struct sym_buf {
    const char* b; std::size_t n;
    struct iterator {
        const char* ptr;
        constexpr char operator *() const { return *ptr; }
        constexpr iterator& operator ++() { ++ptr; return *this; }
        constexpr iterator operator ++(int) { iterator i(*this); ++ptr; return i; }
        constexpr bool operator == (const iterator& other) const { return ptr == other.ptr; }
        constexpr bool operator != (const iterator& other) const { return ptr != other.ptr; }
        constexpr iterator& operator += (std::size_t len) { ptr += len; return *this; }
        constexpr iterator operator + (std::size_t len) const { iterator i(*this); i.ptr += len; return i; }
    };
    constexpr iterator begin() const { return iterator{ b }; }
    constexpr iterator end() const { return iterator{ b + n }; }
    constexpr std::string_view get_view(iterator s, iterator e) const { return std::string_view(s.ptr, e.ptr - s.ptr); }
};
// an error stream that really uses what is streamed into it (so that the optimiser cannot drop the reads that produce the values)
struct use_stream {
    unsigned acc = 0;
    template<typename T> use_stream& operator<<(T&& v) {
        using U = std::remove_cv_t<std::remove_reference_t<T>>;
        if constexpr (std::is_same_v<U, const char*> || std::is_same_v<U, char*>) acc = acc * 31u + (unsigned)(unsigned char)v[0];
        else if constexpr (std::is_integral_v<U>) acc = acc * 31u + (unsigned)v;
        else if constexpr (std::is_same_v<U, std::string_view>) acc = acc * 31u + (unsigned)v.size() + (v.size() ? (unsigned)(unsigned char)v[0] : 0u);
        else acc = acc * 31u + 1u;
        return *this;
    }
};
}
#endif
