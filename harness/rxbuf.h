// a user buffer (documented Buffer concept: begin(), end(), get_view(), iterator) over a char array with an explicit length
#ifndef VERIF_RXBUF_H
#define VERIF_RXBUF_H
#include <string_view>
#include <cstddef>
#include <type_traits>
namespace hv {
struct sym_buf {
    const char* b; std::size_t n;
    struct iterator {
        const char* ptr;
        constexpr char operator *() const { return *ptr; }
        constexpr iterator& operator ++() { ++ptr; return *this; }
        constexpr iterator operator ++(int) { iterator i(*this); ++ptr; return i; }
        constexpr bool operator == (const iterator& other) const { return ptr == other.ptr; }
        constexpr bool operator != (const iterator& other) const { return ptr != other.ptr; }
        constexpr iterator& operator += (std::size_t len) { ptr += len; return *this; }
        constexpr iterator operator + (std::size_t len) const { iterator i(*this); i.ptr += len; return i; }
    };
    constexpr iterator begin() const { return iterator{ b }; }
    constexpr iterator end() const { return iterator{ b + n }; }
    constexpr std::string_view get_view(iterator s, iterator e) const { return std::string_view(s.ptr, e.ptr - s.ptr); }
};
// an error stream that really uses what is streamed into it (so that the optimiser cannot drop the reads that produce the values)
struct use_stream {
    unsigned acc = 0;
    template<typename T> use_stream& operator<<(T&& v) {
        using U = std::remove_cv_t<std::remove_reference_t<T>>;
        if constexpr (std::is_same_v<U, const char*> || std::is_same_v<U, char*>) acc = acc * 31u + (unsigned)(unsigned char)v[0];
        else if constexpr (std::is_integral_v<U>) acc = acc * 31u + (unsigned)v;
        else if constexpr (std::is_same_v<U, std::string_view>) acc = acc * 31u + (unsigned)v.size() + (v.size() ? (unsigned)(unsigned char)v[0] : 0u);
        else acc = acc * 31u + 1u;
        return *this;
    }
};
}
#endif
#ifndef VERIF_DIAGREC_H
#define VERIF_DIAGREC_H
// recorder for write_state_diag_str: remembers the action line printed for one target term ("On <term> ...")
namespace hv {
enum { D_NONE = 0, D_SHIFT = 1, D_REDUCE = 2, D_SUCCESS = 3, D_SR_RED = 4, D_SR_SHIFT = 5, D_RR = 6 };
struct diagrec {
    const char* const* names = nullptr; unsigned nnames = 0, target = 0;
    unsigned kind = D_NONE, arg = 0xffffffffu, nlines = 0;
    bool after_on = false, mine = false, got_int = false;
    template<std::size_t N> static unsigned cls(const char (&s)[N], bool& ends) {
        ends = (N >= 2 && s[N - 2] == '\n');
        if constexpr (N == 4) return 100;                                   // "On "
        if constexpr (N == 11) return s[2] == 'h' ? D_SHIFT : s[2] == 'u' ? D_SUCCESS : D_NONE;   // " shift to " / " success \n"
        if constexpr (N == 16) return D_REDUCE;                             // " reduce using ("
        if constexpr (N == 30) return D_SR_RED;                             // " S/R CONFLICT, prefer reduce("
        if constexpr (N == 41) return D_SR_SHIFT;                           // " S/R CONFLICT, prefer shift over reduce("
        if constexpr (N == 33) return D_RR;                                 // " R/R CONFLICT - !!! FIX IT !!! \n"
        return D_NONE;
    }
    template<typename T> diagrec& operator<<(T&& v) {
        using U = std::remove_cv_t<std::remove_reference_t<T>>;
        if constexpr (std::is_array_v<U>) {
            bool ends = false; unsigned k = cls(v, ends);
            if (k == 100) { after_on = true; mine = false; got_int = false; }
            else if (k != D_NONE && mine && kind == D_NONE) { kind = k; nlines++; }
            else if (k != D_NONE && mine) nlines++;
            if (ends) { mine = false; after_on = false; }
        } else if constexpr (std::is_same_v<U, const char*> || std::is_same_v<U, char*>) {
            if (after_on) { after_on = false; unsigned t = 0xfffe; for (unsigned i = 0; i < nnames; ++i) if (names[i] == v) t = i; mine = (t == target); }
        } else if constexpr (std::is_integral_v<U>) {
            if (mine && kind != D_NONE && !got_int) { arg = (unsigned)v; got_int = true; }
        }
        return *this;
    }
};
}
#endif
