/* observable layout shared by the C++ wrappers (real code) and the C oracles.  Plain C. */
#ifndef VERIF_OBS_H
#define VERIF_OBS_H

#ifndef MAXMSG
#define MAXMSG 4
#endif
#ifndef MAXRED
#define MAXRED 16
#endif
#ifndef MAXTERM
#define MAXTERM 8
#endif

/* message kinds written to the error stream */
enum {
  M_OTHER = 0, M_SYNTAX_ERROR = 1, M_UNEXPECTED_CHAR = 2,
  M_RECOGNIZED = 3, M_SHIFT = 4, M_REDUCE = 5, M_GOTO = 6, M_SUCCESS = 7,
  M_ENTER_RECOVERY = 8, M_LEAVE_RECOVERY = 9, M_ENTER_CONSUME = 10, M_LEAVE_CONSUME = 11,
  M_RECOVERING_TO = 12, M_COULD_NOT_RECOVER = 13, M_CONSUMING = 14, M_RR_CONFLICT = 15,
  M_RX_RECOGNIZED = 17, M_RX_CHAR = 18, M_RX_STATE = 19, M_LEX_RECOGNIZED = 20
};

/* OUT[] slots */
#define O_OK      0   /* optional has value */
#define O_VALUE   1
#define O_NMSG    2
#define O_NRED    3
#define O_THROWN  4
#define O_CTX     5   /* context counter as seen by the caller after the parse */
#define O_NTERM   6   /* number of term values seen by functors */
#define O_FLAGS   7   /* bit0 log overflow, bit1 reduction log overflow, bit2 term log overflow, bit3 ctx identity violated, bit4 value reuse */
#ifndef MAXST
#define MAXST 8
#endif
#define O_AUX     8   /* harness specific: hash log = h, nst, st[MAXST] */
#define O_ALT     (O_AUX + 2 + MAXST)   /* second run (other stream / verbosity / parse vs context_parse): ok, value, nred; lexer-call hash */
#define O_ALT_OK   (O_ALT + 0)
#define O_ALT_VALUE (O_ALT + 1)
#define O_ALT_NRED (O_ALT + 2)
#define O_LEXHASH  (O_ALT + 3)
#define O_LEXCALLS (O_ALT + 4)
#define O_MSG0    (O_ALT + 5)
#define MSG_SLOTS 5   /* kind, line, col, a, b */
#define O_RED0    (O_MSG0 + MSG_SLOTS * MAXMSG)
#define O_TERM0   (O_RED0 + MAXRED)
#define TERM_SLOTS 3  /* line, col, value */
#define O_SIZE    (O_TERM0 + TERM_SLOTS * MAXTERM)

#endif
