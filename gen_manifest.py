#!/usr/bin/env python3
"""writes MANIFEST.json from the table below (kept in one place so it is always valid)"""
import json, os
CHECKS = {}
NA = {}
def chk(pid, text, note, technique, design):
    CHECKS[pid] = {"property_id": pid, "quick_cmd": "./check %s --tier quick" % pid, "thorough_cmd": "./check %s --tier thorough" % pid,
                   "evidence_file": "/verif/evidence/%s.json" % pid, "replay_cmd_template": "./check replay {path}", "engine": "ir2c+cbmc",
                   "level_claimed": {"category": "model_checking", "text": text, "design_ref": design}, "level_note": note, "technique": technique}
exec(open(os.path.join(os.path.dirname(os.path.abspath(__file__)), 'manifest_table.py')).read())
ids = ['C%02d' % i for i in range(1, 20)]
m = {"version": 1,
     "setup_cmd": "python3 -c \"import sys; sys.exit(0)\" && cbmc --version >/dev/null && clang++-14 --version >/dev/null",
     "hooks": {"guard": "CTPG_VERIF", "enable": "harness translation units are compiled with -DCTPG_VERIF and include the real header with private members made visible (#define private public in harness/hv.h); no source change in /repo is needed", "baseline_off_cmd": "cmake --build /repo/_build && ctest --test-dir /repo/_build -j8 --timeout 900", "source_commits": [], "add_only": True},
     "engines": [{"name": "ir2c+cbmc", "path": "/verif/ir2c/ir2c.py", "serves_properties": sorted(CHECKS), "kind_free_text": "clang-14 -O1 LLVM IR of the real header -> own IR-to-C translator -> goto-cc -> CBMC 6.11 bounded model checking (MiniSat), with native g++ replay and differential translation validation"}],
     "checks": [CHECKS[i] for i in ids if i in CHECKS],
     "not_applicable": [{"property_id": i, "reason": NA.get(i, "check not built yet in this session (planned, see DESIGN.md section 5)")} for i in ids if i not in CHECKS],
     "notes": "Solver-based checking of the real code; see DESIGN.md.  Exit codes: 0 holds within bounds, 1 VIOLATION (replayed natively), 2 inconclusive machinery (never reported as success)."}
json.dump(m, open('MANIFEST.json', 'w'), indent=1)
print('checks:', sorted(CHECKS), 'n/a:', [x['property_id'] for x in m['not_applicable']])
