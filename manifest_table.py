chk('C01',
    "Bounded model checking of the real table-driven parser (context_parse, get_current_term, shift, reduce, reducers, cvector) on tables built by the real constructor inside clang's constant evaluator: for each grammar unit and exact input length every byte string is decided by the SAT solver against a textbook canonical-LR(1) reference (itself validated against an Earley recogniser).",
    "Grammar dimension is a generated finite family (directed shapes + seeded random), not all grammars; inputs up to the stated length; token-level custom lexer; trusted: clang-14, ir2c (differentially validated each run), CBMC/MiniSat, reference generator.",
    "CBMC bounded model checking of clang-lowered real code vs reference LR(1) interpreter", "DESIGN.md 5/C01")
chk('C03',
    "Bounded model checking of regex::dfa_match and regex::expr::match (real code) on the automaton the real dfa_builder/regex parser built inside clang's constant evaluator: per pattern, every subject string over all 256 byte values and every length <= LMAX is decided by the SAT solver against a reference minimal DFA derived from the README syntax table; complete for a pattern when the product-automaton bound (N+1)(M+1)-1 <= LMAX.",
    "Pattern dimension is a generated finite family (test-suite patterns, all 1- and 2-leaf shapes, seeded 3-leaf sample); 770 of the 3470 pool patterns are recorded known findings (dfa_builder merges states instead of determinising) - for those the solver must prove the matcher still has exactly the recorded defective language; trusted: clang-14, ir2c, CBMC/MiniSat, reference NFA->DFA construction.",
    "CBMC bounded model checking of clang-lowered dfa_match vs reference minimal DFA", "DESIGN.md 5/C03")
chk('C08',
    "Bounded model checking of the real driver's error branch (pop_stacks, shift_recovery_token, consume_term_recovering, mode switches) on grammars with error rules: for every byte string of the stated length the optional, the value (hash of surviving subtrees), the functor call sequence, consumed term values, syntax-error messages and - with verbose on - the complete hashed recovery event log equal a reference interpreter of the README recovery algorithm.",
    "G-err family of 4 grammars; inputs up to the stated length; README algorithm read as 'present the error token to the current state first' (the tree was repaired to match, fix 297b680); verbose log compared through a rolling add/rotate hash (collisions can hide but never raise an alarm) plus the printed state numbers up to a bijection.",
    "CBMC bounded model checking of clang-lowered driver vs reference recovery interpreter", "DESIGN.md 5/C08")
chk('C02',
    "Bounded model checking of shift/reduce/reducers on real tables: for every byte string of the stated length the returned value, the sequence of rule-functor calls and the term values and positions handed to functors equal the reference bottom-up evaluation; rule values are non-commutative polynomial hashes of the children so order, identity and multiplicity of children are observable.",
    "Grammar family finite (directed + seeded random); value types unsigned / term_value<unsigned>; default functors and _e1.._e3 covered by unit e123/etf/chain.",
    "CBMC bounded model checking of clang-lowered reducers vs reference evaluation", "DESIGN.md 5/C02")
chk('C09',
    "Bounded model checking of the failure paths (syntax_error, unexpected_char, loop exits) on real canonical-LR(1) tables: for every byte string of the stated length, empty optional iff not in the language, and the message list written to a recording stream equals the reference (kind, line, column, offending term or byte); a successful non-verbose parse writes nothing.",
    "Grammar family finite; the pieces streamed are observed, std::ostream formatting is outside; skip_whitespace/skip_newline on.",
    "CBMC bounded model checking of clang-lowered driver vs reference LR(1) error detection", "DESIGN.md 5/C09")
chk('C05',
    "Fully symbolic kernels: solve_conflict for all 32-bit rule/term precedences, associativities and indices, and calculate_rule_last_term/precedence/associativity for arbitrary right sides <= 4 symbols and an arbitrary explicit [n], against the property's rule; plus bounded model checking of the real parser on ambiguous operator grammars with declarations: for every byte string the tree-shape hash equals the reference LR(1) parser with the documented S/R resolution.",
    "G-prec family of 10 declaration sets (+ seeded random S/R grammars in thorough); inputs up to the stated length; known finding: rule[0] is indistinguishable from 'no explicit precedence'.",
    "CBMC: symbolic kernels + bounded model checking of clang-lowered parser vs reference", "DESIGN.md 5/C05")
chk('C16',
    "Bounded model checking of one harness that parses the same symbolic bytes twice with the real code - utils::no_stream with verbose off, and a recording stream with verbose on: optional, value and functor calls must agree, and the verbose event log (recognised terms, shifts, reductions with rule numbers, gotos, recovery events, non-verbose messages among them) must equal the reference action sequence.",
    "Grammar family finite; inputs up to the stated length; event log compared through a rolling add/rotate hash (a collision can hide but never raise an alarm) plus printed state numbers up to a bijection; repeated 'Recognized <eof>' lines are not compared; std::ostream itself is not encoded.",
    "CBMC bounded model checking, two instantiations of the real driver vs reference action trace", "DESIGN.md 5/C16")
chk('C13',
    "Bounded model checking of context_parse / value_reductors::invoke / reduce_value_impl for four context categories (T&, const T&, T by value, move-only T&&) on grammars mixing >= and >>= functors: each >>= call checks address and tag of the context against the caller's object and counts; the caller must see one increment per >>= reduction of the reference; a fifth instantiation compares parse and context_parse on a context-ignoring grammar.",
    "Grammar family finite; inputs up to the stated length; contexts are small structs (counter, tag); tag symbolic (8 bits).",
    "CBMC bounded model checking of clang-lowered context forwarding vs reference reduction sequence", "DESIGN.md 5/C13")
chk('C18',
    "Bounded model checking of the custom-lexer branch of get_current_term and the driver with a nondeterministic lexer stub: input bytes and the lexer's (index, length) answers per offset are solver variables constrained only by the documented contract; asked-offset hash and call count, consumed lengths, lexeme slices seen by term functors, Unexpected-character handling, acceptance, values, positions and (on error-rule grammars) recovery equal the reference interpreter fed the same answers.",
    "Grammar family finite; inputs up to the stated length; the library's own regex_lexer client is covered by C17.",
    "CBMC bounded model checking with nondeterministic lexer stub vs reference interpreter", "DESIGN.md 5/C18")
