chk('C01',
    "Bounded model checking of the real table-driven parser (context_parse, get_current_term, shift, reduce, reducers, cvector) on tables built by the real constructor inside clang's constant evaluator: for each grammar unit and exact input length every byte string is decided by the SAT solver against a textbook canonical-LR(1) reference (itself validated against an Earley recogniser).",
    "Grammar dimension is a generated finite family (directed shapes + seeded random), not all grammars; inputs up to the stated length; token-level custom lexer; trusted: clang-14, ir2c (differentially validated each run), CBMC/MiniSat, reference generator.",
    "CBMC bounded model checking of clang-lowered real code vs reference LR(1) interpreter", "DESIGN.md 5/C01")
