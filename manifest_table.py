chk('C01',
    "Bounded model checking of the real table-driven parser (context_parse, get_current_term, shift, reduce, reducers, cvector) on tables built by the real constructor inside clang's constant evaluator: for each grammar unit and exact input length every byte string is decided by the SAT solver against a textbook canonical-LR(1) reference (itself validated against an Earley recogniser).",
    "Grammar dimension is a generated finite family (directed shapes + seeded random), not all grammars; inputs up to the stated length; token-level custom lexer; trusted: clang-14, ir2c (differentially validated each run), CBMC/MiniSat, reference generator.",
    "CBMC bounded model checking of clang-lowered real code vs reference LR(1) interpreter", "DESIGN.md 5/C01")
chk('C03',
    "Bounded model checking of regex::dfa_match and regex::expr::match (real code) on the automaton the real dfa_builder/regex parser built inside clang's constant evaluator: per pattern, every subject string over all 256 byte values and every length <= LMAX is decided by the SAT solver against a reference minimal DFA derived from the README syntax table; complete for a pattern when the product-automaton bound (N+1)(M+1)-1 <= LMAX.",
    "Pattern dimension is a generated finite family (test-suite patterns, all 1- and 2-leaf shapes, seeded 3-leaf sample); 770 of the 3470 pool patterns are recorded known findings (dfa_builder merges states instead of determinising) - for those the solver must prove the matcher still has exactly the recorded defective language; trusted: clang-14, ir2c, CBMC/MiniSat, reference NFA->DFA construction.",
    "CBMC bounded model checking of clang-lowered dfa_match vs reference minimal DFA", "DESIGN.md 5/C03")
chk('C08',
    "Bounded model checking of the real driver's error branch (pop_stacks, shift_recovery_token, consume_term_recovering, mode switches) on grammars with error rules: for every byte string of the stated length the optional, the value (hash of surviving subtrees), the functor call sequence, consumed term values, syntax-error messages and - with verbose on - the complete hashed recovery event log equal a reference interpreter of the README recovery algorithm.",
    "G-err family of 4 grammars; inputs up to the stated length; README algorithm read as 'present the error token to the current state first' (the tree was repaired to match, fix 297b680); verbose log compared through a rolling add/rotate hash (collisions can hide but never raise an alarm) plus the printed state numbers up to a bijection.",
    "CBMC bounded model checking of clang-lowered driver vs reference recovery interpreter", "DESIGN.md 5/C08")
chk('C02',
    "Bounded model checking of shift/reduce/reducers on real tables: for every byte string of the stated length the returned value, the sequence of rule-functor calls and the term values and positions handed to functors equal the reference bottom-up evaluation; rule values are non-commutative polynomial hashes of the children so order, identity and multiplicity of children are observable.",
    "Grammar family finite (directed + seeded random); value types unsigned / term_value<unsigned>; default functors and _e1.._e3 covered by unit e123/etf/chain.",
    "CBMC bounded model checking of clang-lowered reducers vs reference evaluation", "DESIGN.md 5/C02")
chk('C09',
    "Bounded model checking of the failure paths (syntax_error, unexpected_char, loop exits) on real canonical-LR(1) tables: for every byte string of the stated length, empty optional iff not in the language, and the message list written to a recording stream equals the reference (kind, line, column, offending term or byte); a successful non-verbose parse writes nothing.",
    "Grammar family finite; the pieces streamed are observed, std::ostream formatting is outside; skip_whitespace/skip_newline on.",
    "CBMC bounded model checking of clang-lowered driver vs reference LR(1) error detection", "DESIGN.md 5/C09")
