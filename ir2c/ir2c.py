#!/usr/bin/env python3
"""ir2c - LLVM-14 (typed pointer) IR  ->  C for CBMC.

Usage: ir2c.py in.ll out.c [--loops out.loops.json] [--writeset] [--no-r4]

Design rules (see DESIGN.md section 2.1):
  R1  GEP chains are kept as typed lvalue paths and substituted at load/store.
  R2  constant aggregates reached through bitcast(gep(@g,0,k,0...)) are re-typed from their byte image.
  R3  llvm.memcpy between two bitcast T* operands becomes leading-field assignments.
  R4  every array step of a fused lvalue path with a non-literal index gets an explicit
      sub-object bound assertion at the load/store.
Exceptions: __cxa_throw sets exc_pending and the function returns; calls to functions that may throw are
followed by `if (exc_pending) return`; invoke branches to the landing pad; resume returns.
"""
import re, sys, collections, json

TOK = re.compile(r'''\s*(c"(?:[^"\\]|\\\\|\\[0-9A-Fa-f]{2})*"|[%@]"(?:[^"\\]|\\.)*"|[%@][-a-zA-Z$._0-9]+|"(?:[^"\\]|\\.)*"|\$"[^"]*"|\$[-a-zA-Z$._0-9]+|![a-zA-Z0-9_.]*|\#\d+|-?\d+\.\d+(?:e[+-]?\d+)?|0x[0-9A-Fa-f]+|-?\d+|\.\.\.|[a-zA-Z_][a-zA-Z0-9_.]*|[\[\]{}<>()*,=:!])''')

_WS_END = re.compile(r'\s*(;.*)?$')
_COMMENT = re.compile(r'\s*;')
def tokenize(s):
    out = []; i = 0; n = len(s)
    while i < n:
        m = TOK.match(s, i)
        if not m:
            if _WS_END.match(s, i): break
            raise SyntaxError('tok: ' + s[i:i+60])
        t = m.group(1)
        if t.startswith('!'):
            while out and out[-1] == ',': out.pop()
            break
        out.append(t); i = m.end()
        if _COMMENT.match(s, i): break
    return out

# ---------------- types -----------------
class T:
    def __init__(s, k, **kw): s.k = k; s.__dict__.update(kw)
    def __repr__(s): return tstr(s)
def tstr(t):
    k = t.k
    if k == 'int': return 'i%d' % t.w
    if k == 'void': return 'void'
    if k == 'ptr': return tstr(t.to) + '*'
    if k == 'arr': return '[%d x %s]' % (t.n, tstr(t.el))
    if k == 'named': return t.name
    if k == 'struct': return ('<{%s}>' if t.packed else '{%s}') % ','.join(tstr(f) for f in t.fs)
    if k == 'fn': return '%s(%s%s)' % (tstr(t.ret), ','.join(tstr(a) for a in t.args), ',...' if t.va else '')
    if k == 'fp': return t.name
    if k == 'vec': return '<%d x %s>' % (t.n, tstr(t.el))
    return k
_tc = {}
def mk(k, **kw):
    t = T(k, **kw); key = tstr(t)
    if key in _tc: return _tc[key]
    _tc[key] = t; return t
named = {}
I8 = mk('int', w=8); I1 = mk('int', w=1); I64 = mk('int', w=64); I32 = mk('int', w=32)

class P:
    def __init__(s, toks): s.t = toks; s.i = 0
    def peek(s, o=0): return s.t[s.i+o] if s.i+o < len(s.t) else None
    def next(s): x = s.t[s.i]; s.i += 1; return x
    def eat(s, x):
        if s.peek() != x: raise SyntaxError('expected %r got %r at %d in %r' % (x, s.peek(), s.i, ' '.join(s.t[max(0,s.i-8):s.i+8])))
        s.i += 1
    def opt(s, x):
        if s.peek() == x: s.i += 1; return True
        return False
    def type(s):
        t = s.type0()
        while True:
            if s.peek() == '*': s.next(); t = mk('ptr', to=t)
            elif s.peek() == '(':
                s.next(); args = []; va = False
                while s.peek() != ')':
                    if s.peek() == '...': s.next(); va = True
                    else: args.append(s.type())
                    s.opt(',')
                s.next(); t = mk('fn', ret=t, args=tuple(args), va=va)
            else: return t
    def type0(s):
        x = s.next()
        if x == 'void': return mk('void')
        if re.fullmatch(r'i\d+', x): return mk('int', w=int(x[1:]))
        if x in ('float', 'double'): return mk('fp', name=x)
        if x in ('label', 'metadata', 'opaque', 'token'): return mk(x)
        if x[0] == '%': return mk('named', name=x)
        if x == '[':
            n = int(s.next()); s.eat('x'); el = s.type(); s.eat(']'); return mk('arr', n=n, el=el)
        if x == '{':
            fs = []
            while s.peek() != '}': fs.append(s.type()); s.opt(',')
            s.next(); return mk('struct', fs=tuple(fs), packed=False)
        if x == '<':
            if s.peek() == '{':
                s.next(); fs = []
                while s.peek() != '}': fs.append(s.type()); s.opt(',')
                s.next(); s.eat('>'); return mk('struct', fs=tuple(fs), packed=True)
            n = int(s.next()); s.eat('x'); el = s.type(); s.eat('>'); return mk('vec', n=n, el=el)
        raise SyntaxError('type? ' + x)

def resolve(t):
    while t.k == 'named':
        t = named[t.name]
    return t

def align_of(t):
    t = resolve(t); k = t.k
    if k == 'int': return min(8, max(1, 1 << ((max(t.w, 8) - 1).bit_length() - 3))) if t.w <= 64 else 16
    if k == 'ptr': return 8
    if k == 'fp': return 4 if t.name == 'float' else 8
    if k == 'arr': return align_of(t.el)
    if k == 'struct': return 1 if t.packed else max([align_of(f) for f in t.fs] + [1])
    raise Exception('align ' + tstr(t))
def size_of(t):
    t = resolve(t); k = t.k
    if k == 'int': return max(1, 1 << ((max(t.w, 8) - 1).bit_length() - 3)) if t.w <= 64 else 16
    if k == 'ptr': return 8
    if k == 'fp': return 4 if t.name == 'float' else 8
    if k == 'arr': return t.n * size_of(t.el)
    if k == 'struct':
        o = 0
        for f in t.fs:
            if not t.packed: a = align_of(f); o = (o + a - 1) // a * a
            o += size_of(f)
        if not t.packed: a = align_of(t); o = (o + a - 1) // a * a
        return o
    raise Exception('size ' + tstr(t))
def field_off(t, i):
    t = resolve(t); o = 0
    for j, f in enumerate(t.fs):
        if not t.packed: a = align_of(f); o = (o + a - 1) // a * a
        if j == i: return o
        o += size_of(f)

# ---------------- C type names -----------------
OUT_TYPES = []
def cid(name): return re.sub(r'[^A-Za-z0-9_]', '_', name)
_short = {}
_short_used = set()
def short(name, pref):
    key = pref + name
    if key not in _short:
        base = cid(name.strip('%@"'))
        if len(base) > 48: base = base[:32] + '_%d' % len(_short)
        base = pref + base
        while base in _short_used: base += '_'
        _short[key] = base; _short_used.add(base)
    return _short[key]

emitted = set(); emitting = set()
def ctype(t):
    k = t.k
    if k == 'int':
        w = t.w
        if w == 1: return 'uint8_t'
        if w in (8, 16, 32, 64): return 'uint%d_t' % w
        if w == 128: return 'unsigned __int128'
        return 'uint%d_t' % (8 if w < 8 else 16 if w < 16 else 32 if w < 32 else 64)
    if k == 'void': return 'void'
    if k == 'fp': return t.name
    if k == 'ptr':
        if t.to.k == 'fn': return fn_typedef(t.to) + '*'
        if t.to.k == 'void': return 'void*'
        return ctype(t.to) + '*'
    if k == 'named':
        b = named.get(t.name)
        if b is not None and b.k == 'opaque': return 'struct ' + short(t.name, 'S_')
        return 'struct ' + short(t.name, 'S_')
    if k in ('struct', 'arr'): return 'struct ' + agg_name(t)
    if k == 'fn': return fn_typedef(t)
    if k in ('opaque', 'token', 'metadata'): return 'void'
    raise Exception('ctype ' + tstr(t))
_agg = {}
def agg_name(t):
    key = tstr(t)
    if key not in _agg: _agg[key] = ('A%d' if t.k == 'arr' else 'L%d') % len(_agg)
    return _agg[key]
_fnt = {}
def fn_typedef(t):
    key = tstr(t)
    if key not in _fnt: _fnt[key] = 'FT%d' % len(_fnt)
    return _fnt[key]

def define_type(t, out=None):
    out = OUT_TYPES
    k = t.k
    if k == 'named':
        nm = short(t.name, 'S_')
        if nm in emitted: return
        body = named.get(t.name)
        if body is None or body.k == 'opaque': return
        if nm in emitting: raise Exception('recursive by-value ' + t.name)
        emitting.add(nm)
        for f in body.fs: define_type(f)
        out.append('struct %s { %s }%s;' % (nm, ' '.join('%s f%d;' % (ctype(f), i) for i, f in enumerate(body.fs)) or 'char _e;', ' __attribute__((packed))' if body.packed else ''))
        emitted.add(nm)
    elif k == 'struct':
        nm = agg_name(t)
        if nm in emitted: return
        for f in t.fs: define_type(f)
        out.append('struct %s { %s }%s;' % (nm, ' '.join('%s f%d;' % (ctype(f), i) for i, f in enumerate(t.fs)) or 'char _e;', ' __attribute__((packed))' if t.packed else ''))
        emitted.add(nm)
    elif k == 'arr':
        nm = agg_name(t)
        if nm in emitted: return
        define_type(t.el)
        out.append('struct %s { %s a[%d]; };' % (nm, ctype(t.el), max(t.n, 1)))
        emitted.add(nm)
    elif k == 'ptr': touch_type(t.to)
    elif k == 'fn': touch_type(t)
def touch_type(t, out=None):
    out = OUT_TYPES
    k = t.k
    if k == 'named': pass
    elif k in ('struct', 'arr'): define_type(t)
    elif k == 'ptr': touch_type(t.to)
    elif k == 'fn':
        nm = fn_typedef(t)
        if nm in emitted: return
        emitted.add(nm)
        touch_type(t.ret)
        if resolve_safe(t.ret).k in ('struct', 'arr'): define_type(t.ret)
        for a in t.args:
            touch_type(a)
            if resolve_safe(a).k in ('struct', 'arr'): define_type(a)
        out.append('typedef %s %s(%s);' % (ctype(t.ret), nm, ', '.join(ctype(a) for a in t.args) or 'void'))
def resolve_safe(t):
    try: return resolve(t)
    except KeyError: return t
def use_type(t):
    r = resolve_safe(t)
    if r.k in ('struct', 'arr'): define_type(t)
    else: touch_type(t)

# ---------------- constants / values -----------------
def gname(x): return short(x, 'g_')
globals_ty = {}
RETYPE = {}
LASTGEP = [None]
funcs_ty = {}

def parse_const(p, ty): return render(parse_ctree(p, ty), ty)

CONSTOPS = ('getelementptr', 'bitcast', 'ptrtoint', 'inttoptr', 'trunc', 'zext', 'sext', 'add', 'sub', 'addrspacecast')
def parse_ctree(p, ty):
    x = p.peek(); r = resolve(ty)
    if x in ('zeroinitializer', 'undef', 'poison', 'null', 'false', 'none'): p.next(); return ('zero',)
    if x == 'true': p.next(); return ('int', 1)
    if re.fullmatch(r'-?\d+', x):
        p.next(); v = int(x)
        if r.k == 'int': v &= (1 << r.w) - 1
        return ('int', v)
    if x[0] == 'c' and len(x) > 1 and x[1] == '"':
        p.next(); s = x[2:-1]; bs = []; i = 0
        while i < len(s):
            if s[i] == '\\' and s[i+1] == '\\': bs.append(0x5c); i += 2
            elif s[i] == '\\': bs.append(int(s[i+1:i+3], 16)); i += 3
            else: bs.append(ord(s[i])); i += 1
        return ('agg', [(I8, ('int', b)) for b in bs])
    if x == '[':
        p.next(); el = []
        while p.peek() != ']':
            t = p.type(); el.append((t, parse_ctree(p, t))); p.opt(',')
        p.next(); return ('agg', el)
    if x == '{' or (x == '<' and p.peek(1) == '{'):
        if x == '<': p.next()
        p.next(); el = []
        while p.peek() != '}':
            t = p.type(); el.append((t, parse_ctree(p, t))); p.opt(',')
        p.next()
        if x == '<': p.eat('>')
        return ('agg', el)
    if x[0] == '@':
        p.next(); return ('ptr', gref(x))
    if x in CONSTOPS: return ('ptr', const_expr(p)[1])
    raise SyntaxError('const? %r (type %s)' % (x, tstr(ty)))

def render(tr, ty):
    r = resolve(ty); k = tr[0]
    if k == 'zero': return '{0}' if r.k in ('struct', 'arr') else '0'
    if k == 'int':
        v = tr[1]
        return '%dU' % v if r.k == 'int' and r.w <= 32 else '%dULL' % v
    if k == 'ptr': return '((%s)%s)' % (ctype(ty), tr[1]) if r.k == 'ptr' else '((%s)(uintptr_t)%s)' % (ctype(ty), tr[1])
    if k == 'agg':
        if r.k == 'arr': return '{{%s}}' % ','.join(render(c, t) for t, c in tr[1])
        return '{%s}' % ','.join(render(c, t) for t, c in tr[1]) if tr[1] else '{0}'
    raise Exception(k)

def flatten(tr, ty, off, img):
    r = resolve(ty); k = tr[0]
    if k == 'zero': return
    if k == 'int':
        n = size_of(ty)
        for i in range(n): img[off + i] = ('b', (tr[1] >> (8 * i)) & 255)
    elif k == 'ptr': img[off] = ('p', tr[1])
    elif k == 'agg':
        if r.k == 'arr':
            es = size_of(r.el)
            for i, (t, c) in enumerate(tr[1]): flatten(c, t, off + i * es, img)
        else:
            for i, (t, c) in enumerate(tr[1]): flatten(c, t, off + field_off(ty, i), img)

def build(ty, off, img):
    r = resolve(ty)
    if r.k == 'int':
        n = size_of(ty); v = 0
        if off in img and img[off][0] == 'p': return '((%s)(uintptr_t)%s)' % (ctype(ty), img[off][1])
        for i in range(n):
            if off + i in img: v |= img[off + i][1] << (8 * i)
        return '%dU' % v if r.w <= 32 else '%dULL' % v
    if r.k == 'ptr':
        if off in img and img[off][0] == 'p': return '((%s)%s)' % (ctype(ty), img[off][1])
        return '0'
    if r.k == 'arr':
        es = size_of(r.el)
        return '{{%s}}' % ','.join(build(r.el, off + i * es, img) for i in range(r.n))
    if r.k == 'struct':
        return '{%s}' % ','.join(build(f, off + field_off(ty, i), img) for i, f in enumerate(r.fs))
    raise Exception('build ' + tstr(ty))

def gref(x):
    if x in funcs_ty: return gname(x)
    return '(&%s)' % gname(x)

def const_expr(p):
    op = p.next()
    if op == 'getelementptr':
        p.opt('inbounds'); p.eat('(')
        base_t = p.type(); p.eat(',')
        pt = p.type(); pv = operand(p, pt); idx = []
        while p.opt(','):
            p.opt('inrange')
            it = p.type(); idx.append((it, operand(p, it)))
        p.eat(')')
        LASTGEP[0] = (base_t, pv, idx)
        return gep(base_t, pv, idx)
    if op in ('bitcast', 'ptrtoint', 'inttoptr', 'trunc', 'zext', 'sext', 'addrspacecast'):
        p.eat('('); ft = p.type(); LASTGEP[0] = None; isgep = p.peek() == 'getelementptr'; v = operand(p, ft); p.eat('to'); tt = p.type(); p.eat(')')
        if op == 'bitcast' and isgep and LASTGEP[0] and tt.k == 'ptr':
            bt, pv, idx = LASTGEP[0]
            m = re.fullmatch(r'\(&(g_\w+)\)', pv)
            rb = resolve(bt)
            if m and rb.k == 'struct' and len(idx) >= 2 and all(re.fullmatch(r'0U?L?L?', iv) for _, iv in [idx[0]] + idx[2:]):
                k = int(idx[1][1].rstrip('UL'))
                if resolve(tt.to).k in ('struct', 'arr') and size_of(tt.to) == size_of(rb.fs[k]) and tstr(tt.to) != tstr(rb.fs[k]):
                    prev = RETYPE.get((m.group(1), k))
                    if prev is None or tstr(prev) == tstr(tt.to):
                        RETYPE[(m.group(1), k)] = tt.to
                        define_type(tt.to)
                        return (tt, '(&%s.f%d)' % (m.group(1), k))
        return (tt, cast(op, ft, v, tt))
    if op in ('add', 'sub'):
        while p.peek() in ('nuw', 'nsw'): p.next()
        p.eat('('); t1 = p.type(); a = operand(p, t1); p.eat(','); t2 = p.type(); b = operand(p, t2); p.eat(')')
        return (t1, '((%s)(%s %s %s))' % (ctype(t1), a, '+' if op == 'add' else '-', b))
    raise SyntaxError('constexpr ' + op)

def operand(p, ty):
    x = p.peek()
    if x[0] == '%':
        p.next(); return lname(x)
    if x[0] == '@':
        p.next(); return gref(x)
    if x in CONSTOPS: return const_expr(p)[1]
    r = resolve(ty)
    if x in ('undef', 'poison', 'zeroinitializer') and r.k in ('struct', 'arr'):
        p.next(); use_type(ty); return '(%s){0}' % ctype(ty)
    c = parse_const(p, ty)
    if r.k == 'ptr' and c == '0': return '((%s)0)' % ctype(ty)
    if r.k in ('struct', 'arr'): use_type(ty); return '(%s)%s' % (ctype(ty), c)
    return c

def lname(x):
    n = x[1:].strip('"')
    return 'v_' + cid(n)

def gep(base_t, pv, idx):
    cur = base_t
    use_type(base_t)
    e = '%s[%s]' % (pv, sidx(idx[0]))
    for (it, iv) in idx[1:]:
        r = resolve(cur)
        if r.k == 'struct':
            n = int(iv.rstrip('UL')); e += '.f%d' % n; cur = r.fs[n]
        elif r.k == 'arr':
            e += '.a[%s]' % sidx((it, iv)); cur = r.el
        else: raise Exception('gep into ' + tstr(cur))
    return (mk('ptr', to=cur), '(&%s)' % e)
def is_lit(v): return re.fullmatch(r'-?\d+U?L?L?', v) is not None
def sidx(iv):
    it, v = iv
    w = resolve(it).w
    if re.fullmatch(r'\d+U?L?L?', v):
        n = int(v.rstrip('UL'))
        return str(n - (1 << w) if n >> (w - 1) else n)
    return '(int%d_t)%s' % (w if w in (8, 16, 32, 64) else 64, v)

def cast(op, ft, v, tt):
    touch_type(tt)
    if tt.k == 'ptr' and resolve_safe(tt.to).k in ('struct', 'arr'): define_type(tt.to)
    ct = ctype(tt)
    if op in ('bitcast', 'inttoptr', 'addrspacecast'): return '((%s)%s)' % (ct, v)
    if op == 'ptrtoint': return '((%s)(uintptr_t)%s)' % (ct, v)
    fw = resolve(ft).w; tw = resolve(tt).w
    if op == 'trunc':
        return '((%s)(%s & %s))' % (ct, v, mask(tw)) if tw not in (8, 16, 32, 64) else '((%s)%s)' % (ct, v)
    if op == 'zext': return '((%s)%s)' % (ct, v)
    if op == 'sext':
        if fw == 1: return '((%s)(%s ? -1 : 0))' % (ct, v)
        return '((%s)(int%d_t)(int%d_t)%s)' % (ct, tw if tw in (8, 16, 32, 64) else 64, fw, v)
def mask(w): return '0x%xULL' % ((1 << w) - 1)

# ---------------- debug metadata -----------------
MD = {}
def parse_metadata(src):
    for ln in src:
        m = re.match(r'^!(\d+) = (?:distinct )?!(\w+)\((.*)\)\s*$', ln)
        if m:
            kind = m.group(2); body = m.group(3); d = {'kind': kind}
            for fm in re.finditer(r'(\w+): (!\d+|"(?:[^"\\]|\\.)*"|\d+|\w+)', body):
                d[fm.group(1)] = fm.group(2)
            MD[m.group(1)] = d
def clean_fn_name(n):
    if n.startswith('operator'):
        m = re.match(r'operator\s*(<<=?|<=>?|<|>>=?|>=|>|\(\)|\[\]|[^<]*)', n)
        return 'operator' + m.group(1).strip()
    return re.sub(r'<.*$', '', n)
def dbg_info(ref):
    """ref: '123' -> (innermost function name, line, outermost->innermost chain)"""
    if ref is None or ref not in MD: return None
    loc = MD[ref]
    if loc['kind'] != 'DILocation': return None
    def subprogram(scope):
        seen = 0
        while scope and seen < 50:
            n = MD.get(scope.lstrip('!'))
            if n is None: return None
            if n['kind'] == 'DISubprogram': return clean_fn_name(n.get('name', '""').strip('"'))
            scope = n.get('scope'); seen += 1
        return None
    fn = subprogram(loc.get('scope'))
    chain = [fn]; cur = loc; g = 0
    while 'inlinedAt' in cur and g < 50:
        cur = MD.get(cur['inlinedAt'].lstrip('!'))
        if cur is None: break
        chain.append(subprogram(cur.get('scope'))); g += 1
    return {'fn': fn, 'line': int(loc.get('line', '0')), 'chain': chain}

# ---------------- module -----------------
OPTS = {'r4': True, 'writeset': False, 'ws_allow': None}
FN_ATTRS = ('private', 'internal', 'external', 'linkonce_odr', 'weak_odr', 'dso_local', 'unnamed_addr', 'local_unnamed_addr', 'hidden', 'fastcc', 'noundef', 'nonnull', 'zeroext', 'signext', 'noalias', 'available_externally', 'weak', 'nocapture', 'readonly', 'writeonly', 'readnone', 'immarg', 'returned', 'nofree', 'inreg', 'linkonce', 'swiftself', 'nest', 'coldcc', 'protected', 'default', 'cold')

def parse_fn_header(p):
    while p.peek() in FN_ATTRS: p.next()
    byval = {}
    def skip_pattrs(k=None):
        while True:
            x = p.peek()
            if x in FN_ATTRS: p.next()
            elif x in ('align',): p.next(); p.next()
            elif x in ('dereferenceable', 'dereferenceable_or_null'): p.next(); p.eat('('); p.next(); p.eat(')')
            elif x in ('sret', 'byval', 'byref', 'inalloca', 'preallocated', 'elementtype'):
                p.next(); p.eat('('); t = p.type(); p.eat(')')
                if x == 'byval' and k is not None: byval[k] = t
            else: break
    skip_pattrs()
    ret = p.type0()
    while p.peek() == '*': p.next(); ret = mk('ptr', to=ret)
    if p.peek() == '(':   # function pointer return type (rare)
        p.i -= 0
    name = p.next(); p.eat('(')
    args = []; names = []; va = False
    while p.peek() != ')':
        if p.peek() == '...': p.next(); va = True
        else:
            t = p.type(); skip_pattrs(len(args))
            n = None
            if p.peek() and p.peek()[0] == '%': n = p.next()
            args.append(t); names.append(n)
        p.opt(',')
    p.next()
    return {'name': name, 'type': mk('fn', ret=ret, args=tuple(args), va=va), 'argnames': names, 'byval': byval}

NORETURN_ASSERT = ('_ZSt26__throw_bad_variant_accessPKc', '_ZSt26__throw_bad_variant_accessb', '_ZSt24__throw_out_of_range_fmtPKcz', '_ZSt20__throw_length_errorPKc',
                   '_ZSt17__throw_bad_allocv', '_ZSt28__throw_bad_array_new_lengthv', '_ZSt19__throw_logic_errorPKc', '_ZSt20__throw_out_of_rangePKc', 'abort', '_ZSt9terminatev', '__clang_call_terminate',
                   '_ZSt27__throw_bad_optional_accessv')

LOOPS = []   # loop table

def main():
    args = [a for a in sys.argv[1:] if not a.startswith('--')]
    flags = [a for a in sys.argv[1:] if a.startswith('--')]
    loops_out = None
    for f in flags:
        if f == '--writeset': OPTS['writeset'] = True
        elif f.startswith('--ws-allow='): OPTS['ws_allow'] = re.compile(f.split('=', 1)[1])
        elif f == '--no-r4': OPTS['r4'] = False
        elif f.startswith('--loops='): loops_out = f.split('=', 1)[1]
    src = open(args[0]).read().split('\n')
    parse_metadata(src)
    out_globals = []; out_protos = []; out_funcs = []
    for ln in src:
        m = re.match(r'^(%(?:"[^"]*"|[-\w$.]+)) = type (.*)$', ln)
        if m:
            p = P(tokenize(m.group(2)))
            named[m.group(1)] = p.type()
    i = 0; gl = []; fdefs = []
    while i < len(src):
        ln = src[i]
        if ln.startswith('@'): gl.append(ln)
        elif ln.startswith('declare') or ln.startswith('define'):
            hdr = ln.split(' personality ')[0]
            hdr = re.sub(r'\s*(!dbg !\d+\s*)?\{\s*$', '', hdr)
            toks = tokenize(hdr)
            p = P(toks); p.next()
            fn = parse_fn_header(p)
            fn['nounwind_decl'] = False
            funcs_ty[fn['name']] = fn['type']
            if ln.startswith('define'):
                body = []; i += 1
                while src[i] != '}': body.append(src[i]); i += 1
                fn['body'] = body
            else: fn['body'] = None
            fdefs.append(fn)
        i += 1
    ginfo = []
    for ln in gl:
        m = re.match(r'^(@(?:"[^"]*"|[-\w$.]+)) = (.*)$', ln)
        name = m.group(1); rest = m.group(2)
        toks = tokenize(rest); p = P(toks)
        ext = False
        while p.peek() in ('private', 'internal', 'external', 'linkonce_odr', 'weak_odr', 'dso_local', 'unnamed_addr', 'local_unnamed_addr', 'hidden', 'available_externally', 'common', 'weak', 'thread_local', 'appending', 'linkonce', 'protected', 'default', 'externally_initialized'):
            if p.peek() == 'external': ext = True
            p.next()
        kind = p.next()
        if kind == 'alias': continue
        ty = p.type()
        globals_ty[name] = ty
        ginfo.append((name, ty, p, ext, kind))
    gtrees = {}
    for (name, ty, p, ext, kind) in ginfo:
        define_type(ty)
        if not (ext or p.peek() is None or p.peek() in (',',)):
            gtrees[name] = parse_ctree(p, ty)
    global GLOBAL_KIND
    GLOBAL_KIND = {gname(name): kind for (name, ty, p, ext, kind) in ginfo}
    # which functions may throw?
    compute_may_throw(fdefs)
    for fn in fdefs:
        ft = fn['type']
        touch_type(ft)
        for a in ft.args: touch_type(a)
        argn = [n if n else '%%%d' % k for k, n in enumerate(fn['argnames'])]
        a = ', '.join('%s %s' % (ctype(t), lname(n)) for t, n in zip(ft.args, argn))
        if ft.va: a += (', ...' if a else '')
        out_protos.append('%s %s(%s);' % (ctype(ft.ret), gname(fn['name']), a or ('' if ft.va else 'void')))
    for fn in fdefs:
        if fn['body'] is None: continue
        out_funcs.append(emit_fn(fn))
    gdecl = []
    for (name, ty, p, ext, kind) in ginfo:
        gn = gname(name); r = resolve(ty)
        rts = {k: t for (g, k), t in RETYPE.items() if g == gn}
        if name not in gtrees:
            gdecl.append('%s %s;   /* external in the IR (typeinfo, vtable ...): zero-initialised stand-in */' % (ctype(ty), gn)); continue
        tr = gtrees[name]
        cq = 'const ' if False else ''
        if rts and r.k == 'struct' and tr[0] == 'agg':
            sn = 'G_' + gn
            OUT_TYPES.append('struct %s { %s }%s;' % (sn, ' '.join('%s f%d;' % (ctype(rts.get(i, f)), i) for i, f in enumerate(r.fs)), ' __attribute__((packed))' if r.packed else ''))
            parts = []
            for i, (t, c) in enumerate(tr[1]):
                if i in rts:
                    img = {}; flatten(c, t, 0, img); parts.append(build(rts[i], 0, img))
                else: parts.append(render(c, t))
            gdecl.append('struct %s %s;' % (sn, gn))
            out_globals.append('struct %s %s = {%s};' % (sn, gn, ','.join(parts)))
        else:
            gdecl.append('%s %s;' % (ctype(ty), gn))
            out_globals.append('%s %s = %s;' % (ctype(ty), gn, render(tr, ty)))
    # stub bodies for the C++ run-time externals the units reference (part of every claim, see DESIGN 3.1)
    stubs = []
    for fn in fdefs:
        if fn['body'] is not None: continue
        nm = fn['name'].strip('@"'); ft = fn['type']
        argn = ['a%d' % k for k in range(len(ft.args))]
        sig = '%s %s(%s)' % (ctype(ft.ret), gname(fn['name']), ', '.join('%s %s' % (ctype(t), n) for t, n in zip(ft.args, argn)) or 'void')
        if nm == '__cxa_allocate_exception': stubs.append(sig + ' { static uint8_t exc_buf[256]; return exc_buf; }')
        elif nm in ('__cxa_free_exception', '_ZdlPv', '_ZdlPvm', '_ZdaPv') : stubs.append(sig + ' { }')
        elif nm in ('_Znwm', '_Znam'): stubs.append(sig + ' { void* p = malloc(a0); __CPROVER_assume(p != 0); return p; }')
        elif re.match(r'_ZNSt(13runtime_error|11logic_error|12out_of_range|16invalid_argument|12length_error)(C[12]EPKc|C[12]ERKNSt7__cxx1112basic_stringIcSt11char_traitsIcESaIcEEE|D[012]Ev)$', nm) or nm in ('_ZNSt9exceptionD2Ev', '_ZNSt9exceptionD1Ev'):
            stubs.append(sig + ' { }')
        elif nm == '__gxx_personality_v0': stubs.append(sig.replace('(void)', '()') + ' { return 0; }' if not ft.va else '%s %s() { return 0; }' % (ctype(ft.ret), gname(fn['name'])))
    o = []
    o.append('#include <stdint.h>\n#include <string.h>\n#include <stddef.h>\n#include <stdlib.h>')
    o.append('#ifndef __CPROVER__\nvoid __CPROVER_assert(int, const char*); void __CPROVER_assume(int);\n#endif')
    o.append('extern int exc_pending;')
    if OPTS['writeset']: o.append('void ws_check(void* p);')
    for n in named: o.append('struct %s;' % short(n, 'S_'))
    o += OUT_TYPES + gdecl + out_protos + out_globals
    text = '\n'.join(o) + '\n'
    base_lines = text.count('\n')
    # functions: compute line numbers of loop back edges
    SRCMAP = {}
    for ftxt, loops, smap in out_funcs:
        for lp in loops: lp['c_line'] = base_lines + 1 + lp.pop('rel_line'); lp.pop('srcmap', None)
        LOOPS.extend(loops)
        for rel, dbg in smap:
            di = dbg_info(dbg)
            if di: SRCMAP[base_lines + 1 + rel] = '%s:%d' % ('<'.join(x or '?' for x in di['chain'][:3]), di['line'])
        text += ftxt + '\n'
        base_lines += ftxt.count('\n') + 1
    text += '/* ---- run-time stubs ---- */\nint exc_pending = 0;\n' + '\n'.join(stubs) + '\n'
    open(args[1], 'w').write(text)
    if loops_out:
        json.dump({'loops': LOOPS, 'functions': [gname(f['name']) for f in fdefs if f['body'] is not None],
                   'externals': [gname(f['name']) for f in fdefs if f['body'] is None],
                   'src_functions': sorted(set(x for f in fdefs if f['body'] is not None for x in f.get('src_fns', []))),
                   'globals': [{'c': gname(n), 'kind': k, 'size': size_of(t)} for (n, t, _, e, k) in ginfo if n in gtrees],
                   'srcmap': SRCMAP}, open(loops_out, 'w'), indent=0)

MAY_THROW = set()
def compute_may_throw(fdefs):
    calls = {}; defined = set()
    for fn in fdefs:
        nm = fn['name']
        if fn['body'] is None: continue
        defined.add(nm); cs = set(); ind = False
        for ln in fn['body']:
            m = re.search(r'\b(?:call|invoke)\b[^@%]*?(@"[^"]*"|@[-\w$.]+|%[-\w$.]+|%"[^"]*")\(', ln)
            if m:
                c = m.group(1)
                if c[0] == '%': ind = True
                else: cs.add(c)
        calls[nm] = (cs, ind)
    mt = set(['@__cxa_throw', '@__cxa_rethrow'])
    # indirect calls may throw; unknown externals: assume nounwind except the throw helpers (handled as asserts)
    changed = True
    while changed:
        changed = False
        for nm, (cs, ind) in calls.items():
            if nm in mt: continue
            if ind or (cs & mt):
                mt.add(nm); changed = True
    MAY_THROW.clear(); MAY_THROW.update(mt)

LV = {}; BC = {}
BINOPS = {'add': '+', 'sub': '-', 'mul': '*', 'and': '&', 'or': '|', 'xor': '^', 'shl': '<<', 'lshr': '>>', 'udiv': '/', 'urem': '%'}
ICMP = {'eq': '==', 'ne': '!=', 'ugt': '>', 'uge': '>=', 'ult': '<', 'ule': '<=', 'sgt': '>', 'sge': '>=', 'slt': '<', 'sle': '<='}

def zero_of(t):
    r = resolve_safe(t)
    if r.k == 'void': return ''
    if r.k in ('struct', 'arr'): return ' (%s){0}' % ctype(t)
    return ' 0'

CUR = {}
def emit_fn(fn):
    ft = fn['type']; body = fn['body']
    argn = [n if n else '%%%d' % k for k, n in enumerate(fn['argnames'])]
    decls = collections.OrderedDict()
    blocks = []
    entry_label = str(len(fn['argnames']))
    cur = (entry_label, []); blocks.append(cur)
    j = 0; lines = []
    while j < len(body):
        ln = body[j]
        if ln.strip().startswith('switch') and ln.rstrip().endswith('['):
            j += 1
            while not body[j].strip().startswith(']'): ln += ' ' + body[j].strip(); j += 1
            ln += ' ' + body[j].strip()
        if re.search(r'\binvoke\b', ln) and j + 1 < len(body) and body[j+1].strip().startswith('to label'):
            ln += ' ' + body[j+1].strip(); j += 1
        if ln.strip().startswith('landingpad') or re.match(r'\s*%[-\w.]+ = landingpad', ln):
            while j + 1 < len(body) and re.match(r'\s*(cleanup|catch|filter)\b', body[j+1]): j += 1
        lines.append(ln); j += 1
    for ln in lines:
        if not ln.strip(): continue
        m = re.match(r'^([-\w$.]+|"[^"]*"):', ln)
        if m:
            cur = (m.group(1).strip('"'), []); blocks.append(cur); continue
        cur[1].append(ln)
    phis = collections.defaultdict(list)
    LV.clear(); BC.clear()
    CUR.clear(); CUR.update({'ret': ft.ret, 'fn': fn, 'src_fns': set()})
    code = {}; blk_chains = {}
    for (lab_, lns) in blocks:
        outl = []; blk_chains[lab_] = []
        for ln in lns:
            dm = re.search(r'!dbg !(\d+)', ln)
            CUR['dbg'] = dm.group(1) if dm else None
            di_ = dbg_info(CUR['dbg'])
            if di_: blk_chains[lab_].append(tuple(di_['chain']))
            toks = tokenize(ln)
            if not toks: continue
            p = P(toks)
            try:
                n0 = len(outl)
                emit_inst(p, outl, decls, phis, lab_)
                if CUR['dbg']:
                    for k_ in range(n0, len(outl)):
                        if not outl[k_].startswith('@@DBG'): outl[k_] = '@@DBG%s@@%s' % (CUR['dbg'], outl[k_])
            except Exception as e:
                raise Exception('%s\n  in fn %s: %s' % (e, fn['name'][:80], ln[:300]))
        code[lab_] = outl
    fn['src_fns'] = sorted(x for x in CUR['src_fns'] if x)
    res = []
    args = ', '.join('%s %s' % (ctype(t), lname(n)) for t, n in zip(ft.args, argn))
    if ft.va: args += ', ...'
    res.append('%s %s(%s) {' % (ctype(ft.ret), gname(fn['name']), args or 'void'))
    for n, ct in decls.items(): res.append('  %s %s;' % (ct, n))
    for k, t in fn['byval'].items():
        use_type(t)
        res.append('  %s %s_byval = *%s; %s = &%s_byval;' % (ctype(t), lname(argn[k]), lname(argn[k]), lname(argn[k]), lname(argn[k])))
    seen_labels = set(); loops = []; srcmap = []
    cfn = gname(fn['name'])
    succ = {}
    for (lab_, lns) in blocks:
        succ['L_' + cid(lab_)] = set(g for l in code[lab_] if '@@TERM' in l for g in re.findall(r'goto (L_\w+);', l))
    pred = collections.defaultdict(set)
    for a, bs in succ.items():
        for b in bs: pred[b].add(a)
    chains_by_c = {'L_' + cid(l): c for l, c in blk_chains.items()}
    def loop_src(latch, header):
        body = {header, latch}; work = [latch]
        while work:
            x = work.pop()
            if x == header: continue
            for q in pred[x]:
                if q not in body: body.add(q); work.append(q)
        chains = [c for b in body for c in chains_by_c.get(b, [])]
        if not chains: return None, None
        rev = [list(reversed(c)) for c in chains]
        common = []
        for k in range(min(len(r) for r in rev)):
            if all(r[k] == rev[0][k] for r in rev): common.append(rev[0][k])
            else: break
        return (common[-1] if common else None), list(reversed(common))
    for (lab_, lns) in blocks:
        res.append(' L_%s: ;' % cid(lab_)); seen_labels.add('L_' + cid(lab_))
        for l in code[lab_]:
            dbg = None
            m = re.match(r'@@DBG(\d*)@@', l)
            if m: dbg = m.group(1) or None; l = l[m.end():]
            if l.startswith('@@TERM'):
                for (dst, ct, val, blk) in phis.get(lab_, []):
                    res.append('  %s_phi = %s;' % (dst, val))
                stmt = l[6:]
                res.append('  ' + stmt)
                if dbg: srcmap.append((len(res) - 1, dbg))
                # loop back edges, in textual order of the goto statements
                for gm in re.finditer(r'goto (L_\w+);', stmt):
                    if gm.group(1) in seen_labels:
                        di = dbg_info(dbg) or {}
                        sfn, common = loop_src('L_' + cid(lab_), gm.group(1))
                        loops.append({'cfn': cfn, 'idx': len(loops), 'header': gm.group(1), 'rel_line': len(res) - 1,
                                      'src_fn': sfn, 'src_line': di.get('line'), 'chain': common})
            else:
                res.append('  ' + l)
                if dbg: srcmap.append((len(res) - 1, dbg))
    res.append('}')
    for lp in loops: lp['srcmap'] = None
    return ('\n'.join(res), loops, srcmap)

def lab(x): return 'L_' + cid(x[1:].strip('"'))

def lvtext(v, deref_checks=None):
    """C lvalue for *v.  If deref_checks is a list, R4 sub-object assertions are appended to it."""
    if v not in LV: return '(*%s)' % v
    b, path = LV[v]
    m = re.fullmatch(r'\(&([A-Za-z_]\w*(?:\.f\d+)*)\)', b)
    if m and path[0][1] == '0': e = m.group(1)
    else: e = '%s[%s]' % (b, path[0][1])
    for st in path[1:]:
        if st[0] == 'f': e += '.f%d' % st[1]
        else:
            e += '.a[%s]' % st[1]
            if deref_checks is not None and OPTS['r4'] and st[2] > 0:
                if is_lit(st[1]):
                    if not (0 <= int(st[1].rstrip('UL')) < st[2]): deref_checks.append('__CPROVER_assert(0, "R4 sub-object bound: constant index %s outside [0,%d)");' % (st[1], st[2]))
                else:
                    deref_checks.append('__CPROVER_assert((uint64_t)(int64_t)(%s) < %dULL, "R4 sub-object bound: index < %d");' % (st[1], st[2], st[2]))
    return e

def base_global(v):
    """if the fused base of v is a module global, return its C name"""
    if v in LV:
        b, path = LV[v]
        m = re.fullmatch(r'\(&(g_\w+?)(?:\.f\d+)*\)', b)
        if m: return m.group(1)
    m = re.fullmatch(r'\(&(g_\w+?)(?:\.f\d+)*\)', v)
    if m: return m.group(1)
    return None

def declare(decls, name, ty):
    use_type(ty)
    decls[name] = ctype(ty)

def writeset_check(out, pv):
    if not OPTS['writeset']: return
    g = base_global(pv)
    if g is None:
        m = re.search(r'&(g_\w+)', pv)          # constant-expression operands: bitcast / gep of a global
        if m and not re.fullmatch(r'v_\w+', pv) and pv not in LV: g = m.group(1)
    if g is not None:
        if OPTS['ws_allow'] is not None and OPTS['ws_allow'].search(g): return
        out.append('__CPROVER_assert(0, "WRITESET: store to module global %s");' % g)
    elif re.fullmatch(r'v_\w+', pv) and pv not in LV:
        out.append('ws_check((void*)%s);' % pv)
    elif pv in LV:
        b = LV[pv][0]
        if re.fullmatch(r'v_\w+', b) and not CUR.get('allocas', set()) & {b}:
            out.append('ws_check((void*)%s);' % b)
        elif not re.fullmatch(r'v_\w+', b):
            m = re.search(r'&(g_\w+)', b)
            if m and not (OPTS['ws_allow'] is not None and OPTS['ws_allow'].search(m.group(1))):
                out.append('__CPROVER_assert(0, "WRITESET: store to module global %s");' % m.group(1))
    else:
        out.append('ws_check((void*)(%s));' % pv)

def emit_inst(p, out, decls, phis, curlab):
    dst = None
    if p.peek(1) == '=':
        dst = lname(p.next()); p.next()
    op = p.next()
    while op in ('tail', 'musttail', 'notail'): op = p.next()
    di = dbg_info(CUR.get('dbg'))
    if di: CUR['src_fns'].update(x for x in di['chain'] if x)
    def setv(ty, expr):
        declare(decls, dst, ty)
        out.append('%s = %s;' % (dst, expr))
    def term(s): out.append('@@DBG%s@@@@TERM%s' % (CUR.get('dbg') or '', s))
    if op in BINOPS or op in ('sdiv', 'srem', 'ashr'):
        while p.peek() in ('nuw', 'nsw', 'exact'): p.next()
        ty = p.type(); a = operand(p, ty); p.eat(','); b = operand(p, ty)
        w = resolve(ty).w; ct = ctype(ty)
        if op in ('sdiv', 'srem', 'ashr'):
            sop = {'sdiv': '/', 'srem': '%', 'ashr': '>>'}[op]
            e = '(%s)((int%d_t)%s %s %s)' % (ct, w, a, sop, ('(int%d_t)%s' % (w, b)) if op != 'ashr' else b)
        else:
            e = '(%s)(%s %s %s)' % (ct, a, BINOPS[op], b)
            if w == 1 and op in ('add', 'sub', 'xor'): e = '(%s)((%s ^ %s) & 1)' % (ct, a, b)
            elif w not in (8, 16, 32, 64, 128): e = '(%s)((%s %s %s) & %s)' % (ct, a, BINOPS[op], b, mask(w))
            elif w < 32 and op in ('add', 'sub', 'mul', 'shl'): e = '(%s)((uint32_t)%s %s (uint32_t)%s)' % (ct, a, BINOPS[op], b)
        setv(ty, e)
    elif op == 'icmp':
        pred = p.next(); ty = p.type(); a = operand(p, ty); p.eat(','); b = operand(p, ty)
        r = resolve(ty)
        if pred[0] == 's' and r.k == 'int':
            a = '(int%d_t)%s' % (r.w, a); b = '(int%d_t)%s' % (r.w, b)
        setv(I1, '(%s %s %s)' % (a, ICMP[pred], b))
    elif op in ('zext', 'sext', 'trunc', 'bitcast', 'ptrtoint', 'inttoptr', 'addrspacecast'):
        ftp = p.type(); v = operand(p, ftp); p.eat('to'); tt = p.type()
        setv(tt, cast(op, ftp, v, tt))
        if op == 'bitcast' and ftp.k == 'ptr' and re.fullmatch(r'v_\w+', v): BC[dst] = (v, ftp.to)
    elif op == 'getelementptr':
        p.opt('inbounds'); bt = p.type(); p.eat(','); pt = p.type(); pv = operand(p, pt); idx = []
        while p.opt(','):
            it = p.type(); idx.append((it, operand(p, it)))
        rt, e = gep(bt, pv, idx)
        setv(rt, e)
        steps = []; cur = bt
        for (it, iv) in idx[1:]:
            r = resolve(cur)
            if r.k == 'struct': n = int(iv.rstrip('UL')); steps.append(('f', n)); cur = r.fs[n]
            else: steps.append(('a', sidx((it, iv)), r.n)); cur = r.el
        i0 = sidx(idx[0])
        if pv in LV:
            b0, p0 = LV[pv]
            if i0 == '0': LV[dst] = (b0, p0 + steps)
            elif p0[-1][0] == 'a': LV[dst] = (b0, p0[:-1] + [('a', '(%s)+(%s)' % (p0[-1][1], i0), p0[-1][2])] + steps)
            elif p0[-1][0] == 'i': LV[dst] = (b0, p0[:-1] + [('i', '(%s)+(%s)' % (p0[-1][1], i0))] + steps)
            else: LV[dst] = (pv, [('i', i0)] + steps)
        else:
            LV[dst] = (pv, [('i', i0)] + steps)
    elif op == 'load':
        p.opt('volatile'); ty = p.type(); p.eat(','); pt = p.type(); pv = operand(p, pt)
        chk = []
        e = lvtext(pv, chk)
        out.extend(chk)
        setv(ty, e)
    elif op == 'store':
        p.opt('volatile'); ty = p.type(); v = operand(p, ty); p.eat(','); pt = p.type(); pv = operand(p, pt)
        chk = []
        e = lvtext(pv, chk)
        out.extend(chk)
        writeset_check(out, pv)
        out.append('%s = %s;' % (e, v))
    elif op == 'alloca':
        ty = p.type()
        define_type(ty)
        decls[dst + '_mem'] = ctype(ty)
        declare(decls, dst, mk('ptr', to=ty))
        out.append('%s = &%s_mem;' % (dst, dst))
        CUR.setdefault('allocas', set()).add(dst)
    elif op == 'br':
        if p.peek() == 'label':
            p.next(); term('goto %s;' % lab(p.next()))
        else:
            ty = p.type(); c = operand(p, ty); p.eat(','); p.eat('label'); a = p.next(); p.eat(','); p.eat('label'); b = p.next()
            term('if (%s) goto %s; else goto %s;' % (c, lab(a), lab(b)))
    elif op == 'switch':
        ty = p.type(); v = operand(p, ty); p.eat(','); p.eat('label'); d = p.next(); p.eat('[')
        s = 'switch (%s) {' % v
        while p.peek() != ']':
            t2 = p.type(); c = operand(p, t2); p.eat(','); p.eat('label'); l = p.next()
            s += ' case %s: goto %s;' % (c, lab(l))
        s += ' default: goto %s; }' % lab(d)
        term(s)
    elif op == 'ret':
        ty = p.type()
        if ty.k == 'void': term('return;')
        else: term('return %s;' % operand(p, ty))
    elif op == 'unreachable':
        term('__CPROVER_assert(0, "unreachable reached"); __CPROVER_assume(0); return%s;' % zero_of(CUR['ret']))
    elif op == 'phi':
        ty = p.type()
        declare(decls, dst, ty)
        decls[dst + '_phi'] = ctype(ty)
        while True:
            p.eat('['); v = operand(p, ty); p.eat(','); l = p.next(); p.eat(']')
            phis[l[1:].strip('"')].append((dst, ctype(ty), v, curlab))
            if not p.opt(','): break
        out.append('%s = %s_phi;' % (dst, dst))
    elif op == 'select':
        ct = p.type(); c = operand(p, ct); p.eat(','); ty = p.type(); a = operand(p, ty); p.eat(','); t2 = p.type(); b = operand(p, t2)
        setv(ty, '(%s ? %s : %s)' % (c, a, b))
    elif op in ('call', 'invoke'):
        while p.peek() in FN_ATTRS: p.next()
        while p.peek() in ('align', 'dereferenceable', 'dereferenceable_or_null'):
            if p.next() == 'align': p.next()
            else: p.eat('('); p.next(); p.eat(')')
        rt = p.type()
        callee = p.next(); p.eat('(')
        args = []
        while p.peek() != ')':
            t = p.type()
            while True:
                x = p.peek()
                if x in FN_ATTRS: p.next()
                elif x == 'align': p.next(); p.next()
                elif x in ('dereferenceable', 'dereferenceable_or_null'): p.next(); p.eat('('); p.next(); p.eat(')')
                elif x in ('sret', 'byval', 'elementtype', 'byref'): p.next(); p.eat('('); p.type(); p.eat(')')
                else: break
            if t.k == 'metadata':
                while p.peek() not in (',', ')'): p.next()
                p.opt(','); continue
            args.append((t, operand(p, t))); p.opt(',')
        p.next()
        if rt.k == 'ptr' and rt.to.k == 'fn': rt = rt.to.ret
        if rt.k == 'fn': rt = rt.ret
        nm = callee.strip('@"')
        call = None; throws = False; raise_now = False
        if callee[0] == '@':
            if nm.startswith('llvm.lifetime') or nm.startswith('llvm.dbg') or nm.startswith('llvm.experimental.noalias') or nm.startswith('llvm.assume') or nm.startswith('llvm.invariant'): call = ''
            elif nm.startswith('llvm.memcpy') or nm.startswith('llvm.memmove'):
                call = '%s((void*)%s, (void*)%s, %s)' % ('memcpy' if 'memcpy' in nm else 'memmove', args[0][1], args[1][1], args[2][1])
                d, sr, n = args[0][1], args[1][1], args[2][1]
                if OPTS['writeset']:
                    g = base_global(d) or (d in BC and base_global(BC[d][0]))
                    if g and OPTS['ws_allow'] is not None and OPTS['ws_allow'].search(g): pass
                    elif g: out.append('__CPROVER_assert(0, "WRITESET: memcpy into module global %s");' % g)
                    else: out.append('ws_check((void*)%s);' % d)
                if d in BC and sr in BC and tstr(BC[d][1]) == tstr(BC[sr][1]) and re.fullmatch(r'\d+U?L?L?', n):
                    nn = int(n.rstrip('UL')); T0 = BC[d][1]
                    def prefix(t, nn, pd, ps, acc):
                        r = resolve(t)
                        if size_of(t) == nn: acc.append('%s = %s' % (pd, ps)); return True
                        if r.k == 'struct':
                            for i, f in enumerate(r.fs):
                                o = field_off(t, i); sz = size_of(f)
                                if o + sz <= nn: acc.append('%s.f%d = %s.f%d' % (pd, i, ps, i))
                                elif o < nn: return prefix(f, nn - o, '%s.f%d' % (pd, i), '%s.f%d' % (ps, i), acc)
                                if o + sz == nn: return True
                        return False
                    acc = []; chk = []
                    if prefix(T0, nn, lvtext(BC[d][0], chk), lvtext(BC[sr][0], chk), acc):
                        out.extend(chk); call = '; '.join(acc)
            elif nm.startswith('llvm.memset'):
                call = 'memset((void*)%s, %s, %s)' % (args[0][1], args[1][1], args[2][1])
                if OPTS['writeset']: out.append('ws_check((void*)%s);' % args[0][1])
            elif nm.startswith('llvm.umax') or nm.startswith('llvm.umin'):
                call = '(%s %s %s ? %s : %s)' % (args[0][1], '>' if 'umax' in nm else '<', args[1][1], args[0][1], args[1][1])
            elif nm.startswith('llvm.smax') or nm.startswith('llvm.smin'):
                w = resolve(args[0][0]).w
                call = '((int%d_t)%s %s (int%d_t)%s ? %s : %s)' % (w, args[0][1], '>' if 'smax' in nm else '<', w, args[1][1], args[0][1], args[1][1])
            elif nm.startswith('llvm.fshl') or nm.startswith('llvm.fshr'):
                w = resolve(args[0][0]).w; ct = ctype(args[0][0]); a, b, c = args[0][1], args[1][1], args[2][1]
                if nm.startswith('llvm.fshl'): call = '((%s %% %d) ? (%s)((%s << (%s %% %d)) | (%s >> (%d - (%s %% %d)))) : %s)' % (c, w, ct, a, c, w, b, w, c, w, a)
                else: call = '((%s %% %d) ? (%s)((%s << (%d - (%s %% %d))) | (%s >> (%s %% %d))) : %s)' % (c, w, ct, a, w, c, w, b, c, w, b)
            elif nm.startswith('llvm.bswap') and resolve(args[0][0]).w == 32:
                call = '__builtin_bswap32(%s)' % args[0][1]
            elif nm.startswith('llvm.abs'):
                w = resolve(args[0][0]).w
                call = '((int%d_t)%s < 0 ? (%s)(0 - %s) : %s)' % (w, args[0][1], ctype(args[0][0]), args[0][1], args[0][1])
            elif nm.startswith('llvm.usub.sat'):
                call = '(%s > %s ? (%s)(%s - %s) : 0)' % (args[0][1], args[1][1], ctype(args[0][0]), args[0][1], args[1][1])
            elif nm.startswith('llvm.uadd.with.overflow') or nm.startswith('llvm.umul.with.overflow') or nm.startswith('llvm.usub.with.overflow'):
                w = resolve(args[0][0]).w; ct = ctype(args[0][0]); o2 = {'uadd': '+', 'umul': '*', 'usub': '-'}[nm.split('.')[1]]
                use_type(rt); declare(decls, dst, rt)
                wide = 'unsigned __int128' if w == 64 else 'uint64_t'
                if o2 == '-': out.append('%s.f0 = (%s)(%s - %s); %s.f1 = (%s < %s);' % (dst, ct, args[0][1], args[1][1], dst, args[0][1], args[1][1]))
                else: out.append('%s.f0 = (%s)(%s %s %s); %s.f1 = (((%s)%s %s (%s)%s) >> %d) != 0;' % (dst, ct, args[0][1], o2, args[1][1], dst, wide, args[0][1], o2, wide, args[1][1], w))
                call = ''; dst_done = True
            elif nm == 'llvm.trap': call = '__CPROVER_assert(0, "llvm.trap reached"); __CPROVER_assume(0)'
            elif nm in ('__cxa_throw', '__cxa_rethrow'):
                call = 'exc_pending = 1'; raise_now = True
            elif nm in NORETURN_ASSERT:
                call = '__CPROVER_assert(0, "library abort/throw helper reached: %s"); __CPROVER_assume(0)' % nm
            else:
                call = '%s(%s)' % (gname(callee), ', '.join(a for _, a in args))
                throws = callee in MAY_THROW
        else:
            fty = mk('fn', ret=rt, args=tuple(t for t, _ in args), va=False)
            touch_type(fty)
            call = '((%s*)%s)(%s)' % (fn_typedef(fty), lname(callee), ', '.join(a for _, a in args))
            throws = True
        if call:
            if dst and rt.k != 'void' and not raise_now and '__CPROVER_assert(0' not in call: setv(rt, call)
            else:
                out.append(call + ';')
                if dst and rt.k != 'void': declare(decls, dst, rt)
        if op == 'invoke':
            while p.peek() is not None and p.peek() != 'to': p.next()   # attribute group refs (#N)
            p.eat('to'); p.eat('label'); n = p.next(); p.eat('unwind'); p.eat('label'); u = p.next()
            if raise_now: term('goto %s;' % lab(u))
            elif throws: term('if (exc_pending) goto %s; else goto %s;' % (lab(u), lab(n)))
            else: term('goto %s;' % lab(n))
        else:
            if raise_now: out.append('return%s;' % zero_of(CUR['ret']))
            elif throws: out.append('if (exc_pending) return%s;' % zero_of(CUR['ret']))
    elif op == 'landingpad':
        ty = p.type(); declare(decls, dst, ty); p.i = len(p.t)
    elif op in ('cleanup', 'catch', 'filter'):
        p.i = len(p.t)
    elif op == 'resume':
        p.i = len(p.t)
        term('return%s;' % zero_of(CUR['ret']))
    elif op == 'extractvalue':
        ty = p.type(); v = operand(p, ty); e = v; cur = ty
        while p.opt(','):
            n = int(p.next()); r = resolve(cur)
            if r.k == 'struct': e += '.f%d' % n; cur = r.fs[n]
            else: e += '.a[%d]' % n; cur = r.el
        setv(cur, e)
    elif op == 'insertvalue':
        ty = p.type(); v = operand(p, ty); p.eat(','); t2 = p.type(); x = operand(p, t2); path = ''; cur = ty
        while p.opt(','):
            n = int(p.next()); r = resolve(cur)
            if r.k == 'struct': path += '.f%d' % n; cur = r.fs[n]
            else: path += '.a[%d]' % n; cur = r.el
        declare(decls, dst, ty)
        out.append('%s = %s; %s%s = %s;' % (dst, v, dst, path, x))
    elif op == 'freeze':
        ty = p.type(); setv(ty, operand(p, ty))
    else:
        raise Exception('unhandled op ' + op)

if __name__ == '__main__':
    main()
