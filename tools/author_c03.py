#!/usr/bin/env python3
"""Authoring helper (run by hand, never by a check): writes known_findings_c03.json.
For every pattern of the pool whose real automaton (extracted from a native build of the library) does not accept the reference
language, record the language the real automaton *does* accept (minimal DFA, class-compressed).  The C03 check later asks the solver
(a) real == reference? and (b) real == recorded?; only (a) sat and (b) unsat is a KNOWN-FINDING."""
import sys, os, json
here = os.path.dirname(os.path.abspath(__file__))
sys.path.insert(0, os.path.join(here, '..', 'gen')); sys.path.insert(0, here)
import rx, rx_extract
from concurrent.futures import ThreadPoolExecutor

def compress(d):
    cls = d.classes(); cmap = [0] * 256
    for i, cs in enumerate(cls):
        for c in cs: cmap[c] = i
    ranges = []; lo = 0
    for c in range(1, 257):
        if c == 256 or cmap[c] != cmap[lo]: ranges.append([lo, c - 1, cmap[lo]]); lo = c
    return {'n': d.n, 'acc': ''.join('1' if a else '0' for a in d.acc), 'cls_ranges': ranges, 'tr': [[d.trans[s][cs[0]] for cs in cls] for s in range(d.n)]}

def show(b): return ''.join(chr(c) if 32 < c < 127 else '\\x%02x' % c for c in b)

def main():
    pool = rx.pool(); B = 40
    batches = [pool[i:i+B] for i in range(0, len(pool), B)]
    wd = '/tmp/author_c03'; os.makedirs(wd, exist_ok=True)
    def job(k):
        r, e = rx_extract.extract(batches[k], wd, str(k))
        if e: raise Exception(e)
        out = []
        for i, p in enumerate(batches[k]):
            d = rx_extract.real_dfa(r[i]); ref = rx.DFA(rx.parse(p)); w = rx.equivalent(d, ref)
            if w is not None:
                out.append({'kind': 'known', 'property': 'C03', 'pattern': p, 'unit': 'rx:' + p, 'recorded': compress(d),
                            'what': "matcher %s '%s' although the pattern's language %s it (dfa_builder merges states in place instead of determinising)" % (
                                'accepts' if d._full(w) else 'rejects', show(w), 'does not contain' if d._full(w) else 'contains')})
        return out
    with ThreadPoolExecutor(16) as ex: res = [x for b in ex.map(job, range(len(batches))) for x in b]
    json.dump({'comment': 'authored by tools/author_c03.py from the pinned tree; read-only at check time', 'pool_size': len(pool), 'findings': res},
              open(os.path.join(here, '..', 'known_findings_c03.json'), 'w'), separators=(',', ':'))
    print(len(pool), 'patterns,', len(res), 'recorded findings')
main()
