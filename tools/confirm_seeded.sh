#!/bin/bash
# usage: tools/confirm_seeded.sh <Cxx> <seeded-id>   -- confirms an agent's change in its scratch worktree /tmp/mut/<Cxx> and stores it under /verif/seeded/<seeded-id>
p=$1; id=$2; wt=/tmp/mut/$p
cd $wt || exit 2
git diff -- include/ctpg/ctpg.hpp > /tmp/mut/$p.cur.diff
[ -s /tmp/mut/$p.cur.diff ] || { echo "no change applied in worktree"; exit 2; }
echo "--- tests with the change:"; (cmake --build _build 2>&1 | tail -1; ctest --test-dir _build -j8 2>&1 | grep "tests passed")
echo "--- demo with the change:"; g++ -std=c++17 -O1 -I$wt/include demo.cpp -o /tmp/mut/$p.demo_mut 2>&1 | head -3; timeout 60 /tmp/mut/$p.demo_mut > /tmp/mut/$p.out_mut 2>&1; echo "exit=$? $(tail -1 /tmp/mut/$p.out_mut | cut -c1-100)"
git stash -q
echo "--- demo without the change:"; g++ -std=c++17 -O1 -I$wt/include demo.cpp -o /tmp/mut/$p.demo_orig 2>&1 | head -3; timeout 60 /tmp/mut/$p.demo_orig > /tmp/mut/$p.out_orig 2>&1; echo "exit=$? $(tail -1 /tmp/mut/$p.out_orig | cut -c1-100)"
git stash pop -q
mkdir -p /verif/seeded/$id && cp /tmp/mut/$p.cur.diff /verif/seeded/$id/patch.diff && cp demo.cpp /verif/seeded/$id/demo.cpp
echo "stored /verif/seeded/$id"; wc -l /verif/seeded/$id/patch.diff
