#!/bin/bash
# usage: tools/try_seeded.sh <seeded-id> <check-id> [<check-id> ...]
# applies /verif/seeded/<id>/patch.diff to /repo's working tree, runs the quick tier of the listed checks, and reverts.
# The evidence file of each check is saved before and restored afterwards: evidence/ always describes the last run on the UNCHANGED tree.
id=$1; shift
cd /repo || exit 2
git diff --quiet || { echo "/repo has uncommitted changes"; exit 2; }
git apply /verif/seeded/$id/patch.diff || { echo "patch does not apply"; exit 2; }
trap 'cd /repo && git checkout -- . ' EXIT
cd /verif
for c in "$@"; do
  echo "=== seeded $id : check $c"
  [ -f evidence/$c.json ] && cp evidence/$c.json /tmp/.evidence_$c.keep
  ./check $c --tier ${TIER:-quick} 2>&1 | grep -E "^(VIOLATION|  ->|KNOWN-FINDING|INCONCLUSIVE|RESULT)" | cut -c1-400 | head -${LINES_MAX:-12} | tee /verif/seeded/$id/result.txt
  [ -f /tmp/.evidence_$c.keep ] && mv /tmp/.evidence_$c.keep evidence/$c.json
done
