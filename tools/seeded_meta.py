#!/usr/bin/env python3
"""writes seeded/<id>/meta.json from the table below (what each seeded change breaks, what it needs to manifest, what was run, which check catches it)"""
import json, os
T = {
 'C01_a': dict(property='C01', summary='closure(): memoise only the closure items that add_situation reports as new for the current state (looks like dedup; re-introduces the state-dependent memo)',
               needs='two items of one state sharing a closure item (same nonterminal after the dot, same FIRST), the second later occurring in a state without the first; input yncr on S->P|R|y R; P->N c p; R->N c r; N->n',
               caught_by='C01 quick: unit d2, input "x a x x" (solver counterexample 62616262)'),
 'C02_a': dict(property='C02', summary='reduce(): index of the first argument held in a size16_t (truncated modulo 65536)',
               needs='an accepted input that makes the value stack at least 65536 deep when a reduction runs (e.g. a right-recursive list with 70000 elements)',
               caught_by='C02 quick: reduce-step kernel from an arbitrary stack height (counterexample H=277842); not visible to any exact-length query'),
 'C03_a': dict(property='C03', summary='dfa_builder::merge(): the recursive call drops one bool argument, so keep_end_state is lost below the first level',
               needs="'+' over a group whose accepting state has a transition on the group's first character, or alternatives sharing a prefix of >= 2 characters where one is a proper prefix of the other: (aa+)+ on aa, ab|abc on ab",
               caught_by='C03 quick (patterns ab|abc, (a|ab|bc)+, ... added to the base family after this change was missed by the first family)'),
 'C04_a': dict(property='C04', summary='add_term_data_to_dfa (regex overload): mark_end_states after alt instead of before',
               needs='a regex term listed after a keyword with which it shares a prefix path, and an identifier that is a proper prefix of the keyword ("i" with terms("if", [a-z]+))',
               caught_by='C04 quick: unit kwid'),
 'C05_a': dict(property='C05', summary='transitions(): solve_conflict called with the already mapped rule number (ri.r_idx) instead of the rule_info index',
               needs='shift item before the reduce item in the state, and rules not listed grouped in nterms order (non-identity sort permutation): dangling else with precedences and prog(stmt) listed last',
               caught_by='C05 quick: unit p_perm (added after this change was missed: every earlier G-prec unit had the identity permutation); C11 unit p_perm'),
 'C06_a': dict(property='C06', summary='consume_term_recovering(): end-of-input test replaced by current_it == current_end_it',
               needs='error-recovery grammar, syntax error without synchronising token before the end, input ending in whitespace ("xxy ") with whitespace skipping on: update() runs forward from buffer_end',
               caught_by='C06 quick: unit er1 with skip_whitespace on (added after the first C06 quick used er1 with whitespace skipping off and missed it)'),
 'C07_a': dict(property='C07', summary='skip_whitespace(): loop rewritten so that *start is read before the end test',
               needs='string_view_buffer over a slice of larger storage whose next byte is whitespace',
               caught_by='C07 quick: slice-buffer units (user buffer whose storage continues behind end(); added after this change was missed: every earlier unit used NUL-terminated cstring_buffer)'),
 'C08_a': dict(property='C08', summary='after shifting the error token the offending term is always discarded',
               needs='the offending term is itself acceptable after the error token (stmt(error, ";") and the unexpected term is ";")',
               caught_by='C08 quick: units er1, er2, er3, er4'),
 'C09_a': dict(property='C09', summary='get_current_term(): position not updated when the skipped whitespace reaches the end of input',
               needs='premature end of input after trailing whitespace with whitespace skipping on: the <eof> syntax error carries the position before the blanks',
               caught_by='C09 quick: six units'),
 'C10_a': dict(property='C10', summary='consume_term_recovering(): iterator advanced without updating the source point',
               needs='error recovery that discards at least one term, then any later position is observed',
               caught_by='C10 quick: unit er1'),
 'C11_a': dict(property='C11', summary='transitions(): S/R test before the R/R test, so a second reduction is ignored once a shift item was seen',
               needs='a state with a shift item and two completed items on the same terminal',
               caught_by='C11 quick: unit srr (added after this change was missed: the first family had only a pure R/R grammar)'),
 'C12_a': dict(property='C12', summary="add_situation(): cap check '>=' turned into '>'",
               needs='a user supplied max_sit_count_per_state_cap exactly one below the real need, run-time construction',
               caught_by='C12 quick: add_situation kernel from an arbitrary analyzer state'),
 'C13_a': dict(property='C13', summary='reduce_value_impl takes the context by value instead of Context&&',
               needs='context passed as an rvalue and at least two contextual reductions (or a move-only context)',
               caught_by='C13 quick: context categories 2 / 3'),
 'C14_a': dict(property='C14', summary='std::move dropped in the contextual (>>=) branch of reduce_value_impl',
               needs='context_parse, a >>= rule, a non-trivial value type on its right side',
               caught_by='C14 quick: build obligation (move-only values through >>= rules no longer compile: use of the deleted copy constructor)'),
 'C15_a': dict(property='C15', summary='mutable last_error_sp member written by syntax_error() and consulted on the next error',
               needs='error-recovery grammar; an earlier failing parse on the same object, then a recoverable parse whose first error is at the same position',
               caught_by='C15 quick: write-set assertion (store to module global = the parser object) and the history units'),
 'C16_a': dict(property='C16', summary='verbose reduce trace prints rule_info_idx instead of the rule number',
               needs='verbose on and rules of different nonterminals interleaved (non-identity sort permutation)',
               caught_by='C16 quick: unit interl (added after this change was missed: every earlier unit listed its rules grouped in nterms order)'),
 'C17_a': dict(property='C17', summary='is_printable() upper bound moved from 0x7e to 0x7f',
               needs='a pattern containing the raw DEL byte',
               caught_by='C17 quick: pattern lexer kernels'),
 'C18_a': dict(property='C18', summary="recognized_term's length parameter narrowed to size16_t",
               needs='a custom lexer returning a token longer than 65535 characters',
               caught_by='C18 quick: recognized_term kernel (added after this change was missed: lengths in the end-to-end harness are bounded by the buffer)'),
 'C19_a': dict(property='C19', summary='emplace_back<C,A> (container after element): the two skip packs swapped',
               needs='C > A and C != 2*A',
               caught_by='C19 quick'),
}
for k, v in T.items():
    d = os.path.join(os.path.dirname(os.path.abspath(__file__)), '..', 'seeded', k)
    if not os.path.isdir(d): continue
    v = dict(v); v['id'] = k; v['origin'] = 'independent sub-agent working in a scratch worktree with only the property text'
    v['confirmed'] = 'tools/confirm_seeded.sh: 56/56 existing tests pass with the change; demo.cpp exits 0 without and non-zero with the change (g++ -std=c++17 -O1)'
    v['how_run'] = 'tools/try_seeded.sh %s %s  (git -C /repo apply patch.diff; ./check %s --tier quick; git -C /repo checkout -- .)' % (k, v['property'], v['property'])
    res = os.path.join(d, 'result.txt')
    if os.path.exists(res): v['check_output'] = open(res).read()[:1500]
    json.dump(v, open(os.path.join(d, 'meta.json'), 'w'), indent=1)
print('ok')
