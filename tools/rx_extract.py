#!/usr/bin/env python3
"""Authoring helper (never run by a check): extract the real automaton the library builds for each pattern (native g++ build),
compare with the reference DFA, and report which patterns' languages differ."""
import sys, os, subprocess, json
sys.path.insert(0, os.path.join(os.path.dirname(os.path.abspath(__file__)), '..', 'gen'))
import rx
from concurrent.futures import ThreadPoolExecutor

def cpp_for(pats):
    o = ['#include <cstdio>', '#define private public', '#include <ctpg/ctpg.hpp>', '#undef private', 'using namespace ctpg;']
    for i, p in enumerate(pats):
        o.append('constexpr char pat%d[] = R"RX(%s)RX"; constexpr regex::expr<pat%d> rx%d;' % (i, p, i, i))
    o.append('template<class SM> void dump(int k, const SM& sm){ printf("P %d %zu\\n", k, sm.size()); for (size_t s = 0; s < sm.size(); ++s){ printf("S %d", (int)sm[s].conflicted_recognition[0]); for (int c = 0; c < 256; ++c) printf(" %d", (int)sm[s].transitions[c]); printf("\\n"); } }')
    o.append('int main(){')
    for i in range(len(pats)): o.append(' dump(%d, rx%d.sm);' % (i, i))
    o.append('}')
    return '\n'.join(o)

def extract(pats, wd, tag):
    src = os.path.join(wd, 'ex_%s.cpp' % tag); exe = os.path.join(wd, 'ex_%s' % tag)
    open(src, 'w').write(cpp_for(pats))
    r = subprocess.run(['g++', '-std=c++17', '-O0', '-I/repo/include', '-fconstexpr-ops-limit=1000000000', '-fconstexpr-loop-limit=10000000', src, '-o', exe], capture_output=True, text=True)
    if r.returncode != 0: return None, r.stderr[-800:]
    out = subprocess.run([exe], capture_output=True, text=True).stdout
    res = {}; cur = None
    for ln in out.split('\n'):
        f = ln.split()
        if not f: continue
        if f[0] == 'P': cur = int(f[1]); res[cur] = {'tr': [], 'acc': []}
        elif f[0] == 'S':
            res[cur]['acc'].append(int(f[1]) != 65535); res[cur]['tr'].append([(-1 if int(x) == 65535 else int(x)) for x in f[2:]])
    os.remove(exe); os.remove(src)
    return res, None

def real_dfa(t): return rx.from_table(t['tr'], t['acc'])

if __name__ == '__main__':
    pats = sys.argv[1:]
    r, e = extract(pats, '/tmp', 'cli')
    if e: print(e); sys.exit(1)
    for i, p in enumerate(pats):
        d = real_dfa(r[i]); ref = rx.DFA(rx.parse(p)); w = rx.equivalent(d, ref)
        print(p, 'states', len(r[i]['tr']), 'real-min', d.n, 'ref-min', ref.n, 'EQUIV' if w is None else 'DIFF on %r (real %s, ref %s)' % (w, d._full(w), ref._full(w)))
