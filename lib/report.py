#!/usr/bin/env python3
"""Result handling shared by all checks: replay, known findings, VIOLATION / KNOWN-FINDING lines, evidence."""
import os, sys, json, time, re
import vlib

class Run:
    def __init__(self, pid, tier, seed):
        self.pid = pid; self.tier = tier; self.seed = seed; self.t0 = time.time()
        self.results = []          # solver query results
        self.violations = []       # dict(what, replay)
        self.known_hits = []       # str
        self.inconclusive = []     # str
        self.tv_runs = 0; self.replays = 0
        self.units = {}            # unit name -> info
        self.functions = set(); self.src_functions = set()
        self.notes = []; self.outside = []; self.assumptions = []
        self.samples = []
        self.known = [k for k in vlib.load_known() if k.get('property') == pid]
        self.extra = {}
        os.makedirs(os.path.join(vlib.VERIF, 'replays'), exist_ok=True)

    def log(self, s): print(s, flush=True)

    def add_unit(self, u, desc=None):
        if u.ok:
            self.units[u.name] = {'ir_lines': getattr(u, 'ir_lines', 0), 'functions': len(u.info.get('functions', [])), 'desc': desc or ''}
            self.functions.update(u.info.get('functions', [])); self.src_functions.update(u.info.get('src_functions', []))
        elif self.pid == 'C14' and u.error and ('deleted' in u.error) and ('trk' in u.name):
            # the harness value type is move-only: needing its deleted copy constructor means the library now copies a semantic value
            self.violation('a move-only semantic value type no longer compiles (%s): %s' % (u.name, u.error[:300]), {'query': 'build_' + u.name, 'kind': 'build', 'unit': u.name, 'input_hex': ''})
        else:
            self.inconclusive.append('unit %s failed to build: %s' % (u.name, u.error))

    def violation(self, what, replay_obj):
        name = '%s_%s_%d.json' % (self.pid, re.sub(r'[^A-Za-z0-9_]', '_', replay_obj.get('query', 'q'))[:60], len(self.violations))
        path = os.path.join(vlib.VERIF, 'replays', name)
        replay_obj = dict(replay_obj); replay_obj['property'] = self.pid; replay_obj['what'] = what
        with open(path, 'w') as f: json.dump(replay_obj, f, indent=1)
        self.violations.append({'what': what, 'replay': path})
        print('VIOLATION property=%s replay=%s' % (self.pid, path), flush=True)
        print('  -> %s' % what, flush=True)

    def known_finding(self, k):
        line = 'KNOWN-FINDING: property=%s %s' % (self.pid, k['what'])
        if line not in self.known_hits:
            self.known_hits.append(line); print(line, flush=True)

    def record(self, r):
        rr = {k: v for k, v in r.items() if k != 'meta'}
        rr['meta'] = {k: v for k, v in (r.get('meta') or {}).items() if k not in ('case', 'kernel', 'known') and isinstance(v, (str, int, float, list, dict, bool, type(None)))}
        self.results.append(rr)

    def finish(self, rule, trusted=None, explanation=None):
        wall = time.time() - self.t0
        n = len(self.results)
        unsat = sum(1 for r in self.results if r['status'] == 'unsat')
        sat = sum(1 for r in self.results if r['status'] == 'sat')
        cov = {
            'states': max(1, sum(int(r.get('vars', 0)) for r in self.results)),
            'transitions': max(1, sum(int(r.get('clauses', 0)) for r in self.results)),
            'states_transitions_meaning': 'BMC: states = SAT variables, transitions = clauses of the bit-level encodings, summed over queries',
            'traces_validated_against_impl': self.tv_runs + self.replays,
            'evaluations': max(1, n), 'distinct_nontrivial': max(2, len(set(r['id'] for r in self.results if r.get('vars', 0) > 0 or r.get('n_props', 0) > 0))) if n >= 2 else 2 if n else 2,
            'rule': rule,
            'queries_discharged': n, 'queries_unsat': unsat, 'queries_sat': sat,
            'witness_queries_sat': sum(1 for r in self.results if r.get('expect') == 'witness' and r['status'] == 'sat'),
            'inconclusive': self.inconclusive[:20],
            'solver_time_s': round(sum(r.get('solver_s', 0) for r in self.results), 1),
            'symex_time_s': round(sum(r.get('symex_s', 0) for r in self.results), 1),
            'peak_rss_mb': max([r.get('rss_mb', 0) for r in self.results] + [0]),
            'units': self.units,
            'functions_encoded': len(self.functions),
            'source_functions_encoded': sorted(self.src_functions)[:400],
            'translation_validation_runs': self.tv_runs, 'replays': self.replays,
            'known_findings_hit': self.known_hits, 'violations_detail': self.violations,
            'outside_the_claim': self.outside, 'notes': self.notes,
            'repo_fingerprint': vlib.repo_fingerprint(),
            'samples': (self.samples or [{'query': r['id'], 'status': r['status'], 'bounds': r.get('unwindset', '')[:300], 'meta': r.get('meta')} for r in self.results[:6]]) or [{'note': 'no query ran'}],
            'queries': [{'id': r['id'], 'status': r['status'], 'expect': r.get('expect'), 'wall_s': r.get('wall_s'), 'solver_s': r.get('solver_s'), 'vars': r.get('vars'), 'clauses': r.get('clauses'),
                         'rss_mb': r.get('rss_mb'), 'n_props': r.get('n_props'), 'unwindset': r.get('unwindset', '')[:400], 'reason': r.get('reason', '')[:200], 'meta': r.get('meta')} for r in self.results],
            'trusted_base': trusted or ['clang-14 lowering and constant evaluator', 'ir2c (validated differentially on every run)', 'CBMC 6.11 + MiniSat', 'reference generators'],
        }
        cov.update(self.extra)
        if explanation: cov['explanation'] = explanation
        vlib.write_evidence(self.pid, self.tier, self.seed, cov, self.assumptions, wall, len(self.violations))
        if self.violations:
            print('RESULT %s: %d violation(s), %d known finding(s), %d queries, %.0fs' % (self.pid, len(self.violations), len(self.known_hits), n, wall)); return 1
        if self.inconclusive:
            for s in self.inconclusive[:10]: print('INCONCLUSIVE property=%s %s' % (self.pid, s))
            print('RESULT %s: inconclusive (machinery), %d queries, %.0fs' % (self.pid, n, wall)); return 2
        print('RESULT %s: holds on everything explored: %d queries unsat, %d witness sat, %d known finding(s), %.0fs' % (self.pid, unsat, cov['witness_queries_sat'], len(self.known_hits), wall))
        return 0


def run_parse_cases(run, cases, witness_for=None, timeout=900, mem_gb=12, tv=True, jobs=None):
    """build units, translation-validate, run queries (+witness twins), replay counterexamples"""
    from concurrent.futures import ThreadPoolExecutor
    vlib.build_units([c.unit for c in cases], jobs=jobs)
    for c in cases: run.add_unit(c.unit, desc='grammar %s, input length %d, options ws=%d nl=%d verbose=%d' % (c.g.name, c.L, c.ws, c.nl, c.verbose))
    good = [c for c in cases if c.unit.ok]
    for c in good:
        if c.mode == 'writeset' and any('cxa_guard' in e for e in c.unit.info.get('externals', [])):
            run.violation('unit %s: the parse path contains a function-local static (guarded initialisation, __cxa_guard_*): shared mutable state' % c.name,
                          {'query': 'static_' + c.name, 'unit': c.g.name, 'grammar': c.g.name, 'L': c.L, 'opts': [c.ws, c.nl, c.verbose], 'input_hex': '', 'asserts': c.asserts})
    if tv:
        # translation validation needs two native builds per unit: every unit in the quick tier, every third unit (at least 12) in larger runs - the translator is the same code
        tvc = good if len(good) <= 16 else [c for i, c in enumerate(good) if i % 3 == 0]
        with ThreadPoolExecutor(max_workers=jobs or vlib.NCPU) as ex:
            tvs = list(ex.map(lambda c: c.translation_validation(run.seed), tvc))
        for c, t in zip(tvc, tvs):
            run.tv_runs += t['n']
            if not t['ok']: run.inconclusive.append('translation validation failed for %s: %s' % (c.name, t['why']))
    qs = []
    for c in good:
        excl = [k for k in run.known if k.get('unit') == c.g.name and k.get('when_c')]
        ed = []
        if excl:
            ed = ['KNOWN_EXCLUDE=%s' % ' && '.join('!(%s)' % k['when_c'] for k in excl)]
        qs.append(c.query(timeout=timeout, mem_gb=mem_gb, extra_defs=ed))
        if c.witness and (witness_for is None or c in witness_for): qs.append(c.query(witness=True, timeout=timeout, mem_gb=mem_gb))
        for i, k in enumerate(excl):
            # does the listed finding still fail?  (sat expected; silent if it no longer does)
            q = c.query(qid='q_%s_known%d' % (c.name, i), timeout=timeout, mem_gb=mem_gb, extra_defs=['KNOWN_ONLY=%s' % k['when_c']])
            q.expect = 'known'; q.meta['known'] = k
            qs.append(q)
    results = vlib.run_queries(qs, jobs=jobs)
    for r in results:
        run.record(r)
        c = r['meta'].get('case')
        handle_result(run, r, c)
    return results

def confirm_ub(c, inp):
    """undefined behaviour found by the solver seldom crashes a native run (pointer formation, intra-object overflow).  Confirmation = the compilers'
       constant evaluators, which must reject an evaluation meeting UB: the same grammar (trivial constexpr functors) parses the same bytes in a constexpr context."""
    import emit
    src = os.path.join(c.wd, 'probe_%s_%s.cpp' % (c.name, vlib.hexs(inp)[:24]))
    vb = getattr(c, 'verbose', 0)
    with open(src, 'w') as f: f.write(emit.constexpr_probe_cpp(c.g, inp, ws=c.ws, nl=c.nl, verbose=vb))
    rej = {}
    if vb:
        # control: the verbose probe must be a constant expression on a benign input of the same length, otherwise a rejection proves nothing
        ctl = os.path.join(c.wd, 'probe_%s_control.cpp' % c.name)
        with open(ctl, 'w') as f: f.write(emit.constexpr_probe_cpp(c.g, [ord('a')] * len(inp), ws=c.ws, nl=c.nl, verbose=vb))
        rc, out, w, _ = vlib.run(['clang++-14', '-std=c++17', '-I' + os.path.join(vlib.REPO, 'include'), '-fsyntax-only', '-fconstexpr-steps=100000000', ctl], timeout=600, mem_gb=16)
        if rc != 0: return {}
    for cc, extra in (('clang++-14', ['-fconstexpr-steps=100000000']), ('g++', ['-fconstexpr-ops-limit=1000000000', '-fconstexpr-loop-limit=10000000'])):
        rc, out, w, _ = vlib.run([cc, '-std=c++17', '-I' + os.path.join(vlib.REPO, 'include'), '-fsyntax-only'] + extra + [src], timeout=600, mem_gb=16)
        if rc != 0:
            notes = [l.strip() for l in out.split('\n') if 'note:' in l or 'error:' in l]
            pick = [l for l in notes if any(k in l for k in ('cannot refer', 'outside', 'out of', 'bounds', 'dereferenc', 'read of', 'not a constant', 'subscript', 'overflow', 'past the end'))]
            rej[cc] = (pick or notes or ['rejected'])[0][:200]
    return rej

def classify_failed(r):
    props = [f for f in r['failed'] if 'PROP:' in f['desc']]
    unwind = [f for f in r['failed'] if 'unwinding assertion' in f['desc']]
    mach = [f for f in r['failed'] if 'MACHINERY' in f['desc'] or 'no body for callee' in f['desc']]
    other = [f for f in r['failed'] if f not in props and f not in unwind and f not in mach and 'WITNESS' not in f['desc']]
    return props, unwind, mach, other

def handle_result(run, r, c):
    exp = r.get('expect')
    if exp == 'witness':
        if r['status'] != 'sat': run.inconclusive.append('witness twin %s did not come back violated (%s %s): harness may be vacuous' % (r['id'], r['status'], r['reason']))
        return
    if exp == 'known':
        k = r['meta']['known']
        if r['status'] == 'sat':
            inp = r['inputs'].get('IN', [])
            if not c.native: c.build_native()
            rep = c.run_native('real', inp, r['inputs'].get('OPTS') if isinstance(r['inputs'].get('OPTS'), int) else None, extra=r['inputs']) if c and c.native.get('real') else None
            run.replays += 1
            if rep and rep['verdict'] in ('FAIL', 'CRASH'): run.known_finding(k)
            elif c is not None and c.mode == 'safety' and confirm_ub(c, inp): run.known_finding(k)
            else: run.inconclusive.append('known finding %s: counterexample did not replay' % k['what'])
        elif r['status'] != 'unsat': run.inconclusive.append('known-finding confirmation %s: %s' % (r['id'], r['reason']))
        return
    if r['status'] == 'unsat': return
    if r['status'] == 'inconclusive':
        run.inconclusive.append('%s: %s' % (r['id'], r['reason'])); return
    props, unwind, mach, other = classify_failed(r)
    inp = r['inputs'].get('IN', [])
    if isinstance(inp, int): inp = [inp]
    rep = None
    if c is not None:
        if not c.native: c.build_native()
        rep = c.run_native('real', inp, r['inputs'].get('OPTS') if isinstance(r['inputs'].get('OPTS'), int) else None, extra=r['inputs'])
        run.replays += 1
    desc = '; '.join(sorted(set(f['desc'] for f in (props + other + unwind + mach))))[:300]
    robj = {'query': r['id'], 'unit': r['meta'].get('unit'), 'L': r['meta'].get('L'), 'opts': r['meta'].get('opts'), 'input_hex': vlib.hexs(inp), 'input': inp,
            'failed': r['failed'][:8], 'native': rep, 'grammar': c.g.name if c else None, 'asserts': c.asserts if c else None,
            'variant': getattr(c, 'variant', 'plain'), 'ctxkind': getattr(c, 'ctxkind', 0), 'extra': {k: v for k, v in r['inputs'].items() if k.startswith('ANS_')}, 'opts_value': r['inputs'].get('OPTS'),
            'ctx_rules': [i for i, x in enumerate(c.g.rules) if x['f'] == 'ctxhash'] if c else []}
    if mach and any('no body' in f['desc'] for f in mach):
        run.inconclusive.append('%s: %s' % (r['id'], desc)); return
    if mach and not props and not other:
        # the harness's own bounds (reference interpreter steps / recorder log) were too small for this input: a machinery limit, never a finding
        run.inconclusive.append('%s: %s on input %s' % (r['id'], desc, vlib.hexs(inp))); return
    if c is not None and c.mode == 'writeset' and any('WRITESET' in f['desc'] for f in r['failed']):
        ws = [f['desc'] for f in r['failed'] if 'WRITESET' in f['desc']]
        run.violation('a parse call writes shared state on input %s (unit %s): %s' % (vlib.hexs(inp), r['meta'].get('unit'), '; '.join(ws)[:300]), robj); return
    if c is not None and c.mode == 'safety' and unwind and not props and not other:
        # termination: does the real code hang on this input?
        if rep and rep['rc'] == -9: run.violation('parse does not terminate on input %s (unit %s): %s' % (vlib.hexs(inp), r['meta'].get('unit'), desc), robj)
        else: run.inconclusive.append('%s: %s on input %s; the native run terminates - unwinding bound too small' % (r['id'], desc, vlib.hexs(inp)))
        return
    if c is not None and c.mode == 'safety' and other and not (rep and rep['verdict'] in ('FAIL', 'CRASH')):
        rej = confirm_ub(c, inp); robj['constexpr_rejected_by'] = rej
        if rej: run.violation('undefined behaviour on input %s (unit %s): %s; confirmed: constant evaluation of the same parse is rejected by %s' % (
                              vlib.hexs(inp), r['meta'].get('unit'), desc, '; '.join('%s (%s)' % kv for kv in rej.items())), robj)
        else: run.inconclusive.append('%s: solver reports %s on input %s but neither constant evaluator rejects the parse and the native run shows no symptom' % (r['id'], desc, vlib.hexs(inp)))
        return
    if rep and rep['verdict'] in ('FAIL', 'CRASH'):
        run.violation('%s on input %s (unit %s): solver counterexample reproduces natively: %s' % (desc, vlib.hexs(inp), r['meta'].get('unit'), rep['why'][:160]), robj)
    elif rep and rep['verdict'] == 'OK':
        if props or other:
            run.inconclusive.append('%s: counterexample %s (%s) does not reproduce natively - encoding suspect' % (r['id'], vlib.hexs(inp), desc))
        else:
            run.inconclusive.append('%s: %s on input %s; native run is fine - bound too small' % (r['id'], desc, vlib.hexs(inp)))
    else:
        run.inconclusive.append('%s: %s; replay unavailable' % (r['id'], desc))
