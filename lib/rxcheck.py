#!/usr/bin/env python3
"""Regex harness (kind K2): regex::dfa_match / regex::expr::match on the automaton built by the real constructor,
subject string symbolic (all 256 byte values, every length <= LMAX) vs the reference minimal DFA."""
import os, sys, json, threading
sys.path.insert(0, os.path.join(os.path.dirname(os.path.abspath(__file__)), '..', 'gen'))
import vlib, rx

def dfa_size(ast):
    """mirror of the documented size rule (2 states per primary, repetition multiplies) -- only used to choose the string bound"""
    k = ast[0]
    if k == 'set': return 2
    if k in ('cat', 'alt'): return dfa_size(ast[1]) + dfa_size(ast[2])
    if k in ('star', 'plus', 'opt'): return dfa_size(ast[1])
    if k == 'rep': return dfa_size(ast[1]) * max(ast[2], 1)

def batch_cpp(pats, first_index=0):
    o = ['#include "hv.h"', '#include "rxbuf.h"', 'using namespace ctpg; using namespace ctpg::buffers;']
    for i, p in enumerate(pats):
        k = first_index + i
        o.append('constexpr char pat%d[] = R"RX(%s)RX"; constexpr regex::expr<pat%d> rx%d;' % (k, p, k, k))
        o.append('''extern "C" __attribute__((noinline)) void h_match_%d(const uint8_t* in, uint32_t n, uint32_t* out) {
    char b[LMAX + 1]; for (int i = 0; i < LMAX; i++) b[i] = (char)in[i]; b[LMAX] = 0;
    hv::sym_buf buf{b, n}; utils::no_stream s;
    auto rt = regex::dfa_match(rx%d.sm, match_options{}, source_point{}, buf.begin(), buf.end(), s);
    out[0] = rt.term_idx; out[1] = (uint32_t)rt.len; out[3] = (uint32_t)rx%d.sm.size(); out[4] = (uint32_t)rx%d.dfa_size;
    hv::use_stream us; out[2] = rx%d.match(buf, us) ? 1u : 0u; out[5] = us.acc;
}
extern "C" __attribute__((noinline)) uint32_t k_tr_%d(uint32_t s, uint32_t c) { return rx%d.sm[s].transitions[c & 0xff]; }
extern "C" __attribute__((noinline)) uint32_t k_acc_%d(uint32_t s) { return rx%d.sm[s].conflicted_recognition[0]; }
extern "C" __attribute__((noinline)) uint32_t k_size_%d() { return (uint32_t)rx%d.sm.size(); }''' % (k, k, k, k, k, k, k, k, k, k, k))
    return '\n'.join(o) + '\n'

def emit_ref(d, name):
    """class-compressed reference table"""
    cls = d.classes(); cmap = [0] * 256
    for i, cs in enumerate(cls):
        for c in cs: cmap[c] = i
    o = ['#define %s_N %d' % (name, d.n), '#define %s_NC %d' % (name, len(cls))]
    o.append('static const uint8_t %s_cls[256] = {%s};' % (name, ','.join(map(str, cmap))))
    o.append('static const uint8_t %s_acc[%d] = {%s};' % (name, d.n, ','.join('1' if a else '0' for a in d.acc)))
    o.append('static const uint8_t %s_dead[%d] = {%s};' % (name, d.n, ','.join('1' if a else '0' for a in d.dead)))
    o.append('static const uint8_t %s_tr[%d][%d] = {%s};' % (name, d.n, len(cls), ','.join('{%s}' % ','.join(str(d.trans[s][cs[0]]) for cs in cls) for s in range(d.n))))
    return '\n'.join(o) + '\n'

HARNESS = '''#ifdef USE_REAL
#include <stdint.h>
#include <string.h>
void %(fn)s(const uint8_t* in, uint32_t n, uint32_t* out);
#define RUN %(fn)s
int exc_pending = 0;
#else
#include "%(unit_c)s"
#define RUN g_%(fn)s
#endif
#include "rt.h"
#include "check.h"
%(tables)s
/* longest prefix of in[0..n) in the reference language, -1 if none */
static int ref_longest(const uint8_t* in, unsigned n) {
  unsigned st = 0; int best = REFD_acc[0] ? 0 : -1;
  for (unsigned i = 0; i < LMAX; i++) {
    if (i >= n) break;
    st = REFD_tr[st][REFD_cls[in[i]]];
    if (REFD_dead[st]) break;
    if (REFD_acc[st]) best = (int)i + 1;
  }
  return best;
}
uint8_t IN[LMAX ? LMAX : 1]; uint32_t N; uint32_t OUT[8];
static void oracle(void) {
  int best = ref_longest(IN, N);
#ifdef WITNESS_ON
  WITNESS(%(witness)s, "interesting outcome reachable");
#else
  CHECK(exc_pending == 0, "matching must not throw");
  CHECK((OUT[0] == 0) == (best >= 0), "a prefix is recognised iff the reference language contains a prefix of the string");
  if (best >= 0 && OUT[0] == 0) CHECK(OUT[1] == (uint32_t)best, "the recognised length is the longest prefix in the pattern's language");
  CHECK((OUT[2] != 0) == (best == (int)N), "expr::match accepts exactly the strings of the pattern's language");
  CHECK(OUT[3] <= OUT[4], "the automaton fits the statically computed size");
#endif
}
#ifdef __CPROVER__
uint8_t nondet_uchar(void); uint32_t nondet_uint(void);
void harness(void) {
  for (int i = 0; i < LMAX; i++) IN[i] = nondet_uchar();
  N = nondet_uint(); __CPROVER_assume(N <= LMAX);
  RUN(IN, N, OUT);
  oracle();
}
#else
#include <stdio.h>
#include <stdlib.h>
int main(int argc, char** argv) {
  const char* h = argc > 1 ? argv[1] : ""; N = (uint32_t)(strlen(h) / 2); if (N > LMAX) N = LMAX;
  for (unsigned i = 0; i < N; i++) { unsigned v = 0; sscanf(h + 2*i, "%%2x", &v); IN[i] = (uint8_t)v; }
  RUN(IN, N, OUT);
  oracle();
  printf("OUT"); for (int i = 0; i < 5; i++) printf(" %%u", OUT[i]);
  printf("\\nVERDICT %%s %%s\\n", check_failures ? "FAIL" : "OK", check_failures ? check_first : "");
  return 0;
}
#endif
'''

TAB_HARNESS = '''#ifdef USE_REAL
#error table harness is CBMC only
#endif
#include "%(unit_c)s"
#include "rt.h"
#include "check.h"
%(tables)s
#define NONE 65535u
uint8_t nondet_uchar(void); uint32_t nondet_uint(void);
uint32_t R; uint8_t C;
static uint16_t H[NREAL]; static uint16_t Q[NREAL];
/* Table-level equivalence: h maps every reachable state of the REAL automaton to a state of the reference minimal DFA (computed here by exploring
   the real table from state 0); then for an ARBITRARY reachable state and byte the real transition must follow the reference one and acceptance must agree.
   A homomorphism onto a complete minimal DFA that preserves acceptance means equal languages: strings of ANY length. */
void harness(void) {
  unsigned n = g_k_size_%(k)d();
  __CPROVER_assert(n <= NREAL && n >= 1, "the automaton fits the statically computed size");
  for (unsigned i = 0; i < NREAL; i++) H[i] = NONE;
  H[0] = 0; Q[0] = 0; unsigned qn = 1;
  for (unsigned qi = 0; qi < NREAL; qi++) {
    if (qi >= qn) break;
    unsigned r = Q[qi];
    for (unsigned c = 0; c < 256; c++) {
      unsigned t = g_k_tr_%(k)d(r, c);
      if (t != NONE && t < NREAL && H[t] == NONE) { H[t] = REFD_tr[H[r]][REFD_cls[c]]; Q[qn] = (uint16_t)t; qn++; }
    }
  }
  R = nondet_uint(); C = nondet_uchar();
  __CPROVER_assume(R < n && H[R] != NONE);
  unsigned t = g_k_tr_%(k)d(R, C), qq = REFD_tr[H[R]][REFD_cls[C]];
#ifdef WITNESS_ON
  WITNESS(t != NONE && R != 0, "interesting outcome reachable");
#else
  if (t == NONE) CHECK(REFD_dead[qq], "where the matcher has no transition, no string of the pattern's language continues that way");
  else { CHECK(t < n, "transition target inside the automaton"); if (t < n) CHECK(H[t] == qq, "every transition of the matcher follows the reference automaton (so the languages agree on strings of ANY length)"); }
  CHECK((g_k_acc_%(k)d(R) != NONE) == (REFD_acc[H[R]] != 0), "a state recognises the term exactly when the reference state is accepting");
#endif
}
'''

class RxCase:
    def __init__(self, batch, k, pat, cap, recorded=None):
        self.batch = batch; self.k = k; self.pat = pat
        self.ast = rx.parse(pat); self.ref = rx.DFA(self.ast)
        need = (dfa_size(self.ast) + 1) * (self.ref.n + 1) - 1
        self.lmax = batch.lmax; self.complete = need <= self.lmax; self.need = need
        self.recorded = recorded
    def harness(self, oracle_dfa=None):
        d = oracle_dfa or self.ref
        acc_short = 'OUT[0] == 0 && OUT[1] >= 1 && OUT[2] == 1' if any(self.ref.acc[1:]) or True else '1'
        return HARNESS % {'fn': 'h_match_%d' % self.k, 'unit_c': os.path.basename(self.batch.unit.c), 'tables': emit_ref(d, 'REFD'), 'witness': 'best >= 0 && OUT[3] >= 1'}
    def query(self, tag='', oracle_dfa=None, witness=False, timeout=600, mem_gb=8):
        b = self.batch
        q = vlib.Query('q_rx%d%s%s' % (self.k, tag, '_wit' if witness else ''), b.unit, self.harness(oracle_dfa),
                       bounds={'dfa_match': b.lmax + 2, 'update': 3, 'h_match_%d' % self.k: b.lmax + 2}, fn_bounds={'ref_longest': b.lmax + 2, 'harness': b.lmax + 2, 'g_h_match_.*': b.lmax + 2},
                       default_unwind=b.lmax + 2, mode='functional', defines=['LMAX=%d' % b.lmax] + (['WITNESS_ON'] if witness else []),
                       expect='witness' if witness else 'hold', timeout=timeout, mem_gb=mem_gb, inputs=['IN', 'N'],
                       meta={'unit': 'rx:' + self.pat, 'pattern': self.pat, 'LMAX': b.lmax, 'complete_by_product_bound': self.complete, 'case': self, 'oracle': tag or 'ref'})
        return q
    def table_query(self, timeout=600, mem_gb=8, witness=False):
        """table-level equivalence with the reference DFA: complete for subject strings of any length"""
        b = self.batch; nreal = max(dfa_size(self.ast), 2)
        h = TAB_HARNESS % {'unit_c': os.path.basename(b.unit.c), 'tables': emit_ref(self.ref, 'REFD') + '#define NREAL %d\n' % nreal, 'k': self.k}
        return vlib.Query('q_rx%d_tab%s' % (self.k, '_wit' if witness else ''), b.unit, h, bounds={}, fn_bounds={'harness': 258},
                          default_unwind=max(258, nreal + 2), mode='functional', defines=['LMAX=%d' % b.lmax] + (['WITNESS_ON'] if witness else []),
                          expect='witness' if witness else 'hold', timeout=timeout, mem_gb=mem_gb, inputs=['R', 'C'],
                          meta={'unit': 'rx:' + self.pat, 'pattern': self.pat, 'kind': 'table', 'case': self, 'oracle': 'ref-table'})
    def run_native(self, inbytes):
        exe = self.batch.native.get(self.k)
        if not exe: return None
        rc, out, w, _ = vlib.run([exe, vlib.hexs(inbytes)], timeout=20)
        res = {'rc': rc, 'out': None, 'verdict': None, 'why': ''}
        for ln in out.split('\n'):
            if ln.startswith('OUT '): res['out'] = ln[4:].strip()
            if ln.startswith('VERDICT '):
                p = ln.split(' ', 2); res['verdict'] = p[1]; res['why'] = p[2] if len(p) > 2 else ''
        if rc != 0 and res['verdict'] is None: res['verdict'] = 'CRASH'; res['why'] = 'rc=%d' % rc
        return res

class RxBatch:
    def __init__(self, wd, idx, pats, lmax, first_index):
        self.wd = wd; self.idx = idx; self.lmax = lmax
        self.unit = vlib.Unit(wd, 'rxb%d' % idx, batch_cpp(pats, first_index), defines=['LMAX=%d' % lmax])
        self.cases = [RxCase(self, first_index + i, p, lmax) for i, p in enumerate(pats)]
        self.native = {}; self.lock = threading.Lock()
    def build_native_for(self, case, which='real'):
        """per-pattern native driver: real (g++ against /repo) or xlat (gcc of the translated C)"""
        with self.lock: return self._build_native_for(case, which)
    def _build_native_for(self, case, which):
        hc = os.path.join(self.wd, 'n_rx%d.c' % case.k)
        with open(hc, 'w') as f: f.write(case.harness())
        if which == 'real':
            obj = os.path.join(self.wd, 'rxb%d.real.o' % self.idx)
            if not os.path.exists(obj):
                rc, out, w, _ = vlib.run(['g++', '-std=c++17', '-O1', '-w', '-I' + os.path.join(vlib.REPO, 'include'), '-I' + vlib.HARNESS, '-DLMAX=%d' % self.lmax, '-c', self.unit.cpp, '-o', obj], timeout=900)
                if rc != 0: return None
            exe = os.path.join(self.wd, 'real_rx%d' % case.k)
            rc, out, w, _ = vlib.run(['gcc', '-std=gnu11', '-O1', '-w', '-I' + vlib.HARNESS, '-I' + self.wd, '-DLMAX=%d' % self.lmax, '-DUSE_REAL', '-c', hc, '-o', hc + '.real.o'], timeout=300)
            if rc != 0: return None
            rc, out, w, _ = vlib.run(['g++', '-o', exe, obj, hc + '.real.o'], timeout=300)
            if rc != 0: return None
            self.native[case.k] = exe; return exe
        else:
            exe = os.path.join(self.wd, 'xlat_rx%d' % case.k)
            rc, out, w, _ = vlib.run(['gcc', '-std=gnu11', '-O1', '-w', '-I' + vlib.HARNESS, '-I' + self.wd, '-DLMAX=%d' % self.lmax, '-DNO_R4', hc, '-o', exe], timeout=600)
            if rc != 0: return None
            self.native[('x', case.k)] = exe; return exe

def sample_strings(case, seed, n=40):
    import random
    rnd = random.Random(seed * 31 + case.k)
    cls = [c[0] for c in case.ref.classes()] + [0, 0x80, 0xff]
    out = [[]]
    for _ in range(n):
        L = rnd.randint(0, case.lmax)
        out.append([rnd.choice(cls) for _ in range(L)])
    return out

def translation_validation(case, seed):
    b = case.batch
    r = b.build_native_for(case, 'real'); x = b.build_native_for(case, 'xlat')
    if not r or not x: return {'ok': False, 'n': 0, 'why': 'native build failed for pattern %s' % case.pat}
    n = 0
    for s in sample_strings(case, seed):
        a = vlib.run([r, vlib.hexs(s)], timeout=20)[1]; bb = vlib.run([x, vlib.hexs(s)], timeout=20)[1]; n += 1
        la = [l for l in a.split('\n') if l.startswith('OUT ')]; lb = [l for l in bb.split('\n') if l.startswith('OUT ')]
        if not la or la != lb: return {'ok': False, 'n': n, 'why': 'real/translated disagree for %s on %s: %s / %s' % (case.pat, vlib.hexs(s), la, lb)}
    return {'ok': True, 'n': n, 'why': ''}
