#!/usr/bin/env python3
"""Token-level parse harness (kind K1): real parser driven by symbolic bytes vs reference LR interpreter."""
import os, sys, json, itertools, random
sys.path.insert(0, os.path.join(os.path.dirname(os.path.abspath(__file__)), '..', 'gen'))
import vlib, lr1, emit, lexref

ORACLES = {
    'accept':    '  ora_accept(OUT, &R);\n',
    'value':     '  ora_value(OUT, &R);\n',
    'messages':  '  ora_messages(OUT, &R, 1);\n',
    'positions': '  ora_positions(OUT, &R);\n',
    'trace':     '  ora_trace_hash(OUT, &R);\n',
    'dual':      '  CHECK(OUT[O_ALT_OK] == OUT[O_OK], "same optional with verbose on/off and with or without an error stream");\n'
                 '  if (OUT[O_OK] && OUT[O_ALT_OK]) CHECK(OUT[O_ALT_VALUE] == OUT[O_VALUE], "same value with verbose on/off and with or without an error stream");\n'
                 '  CHECK(OUT[O_ALT_NRED] == OUT[O_NRED], "same functor calls with verbose on/off and with or without an error stream");\n',
    'ctx_rw':    '  CHECK((OUT[O_FLAGS] & 8u) == 0, "every >>= functor receives the very object the caller supplied");\n'
                 '  CHECK(OUT[O_CTX] == R.nctx, "mutations made through the context are visible to the caller: one per >>= reduction, none from >= functors");\n',
    'ctx_ro':    '  CHECK((OUT[O_FLAGS] & 8u) == 0, "every >>= functor receives the context the caller supplied (same identity / same value)");\n'
                 '  CHECK(OUT[O_CTX] == 0, "a const or by-value context is not modified for the caller");\n',
    'lexcalls':  '  CHECK((OUT[O_FLAGS] & 16u) == 0, "the custom lexer is only asked inside the buffer");\n'
                 '  CHECK(OUT[O_LEXCALLS] == ref_lexcalls, "the custom lexer is asked exactly once per needed term");\n'
                 '  CHECK(OUT[O_LEXHASH] == ref_lexhash, "the custom lexer is asked at the reference offsets with the source point of that offset (after the same whitespace skipping)");\n',
    'dual_hist': '  /* the earlier call (O_ALT_*) ran on another input; nothing to compare with it - its only role is to precede this call */\n',
    'moves':     '  CHECK((OUT[O_FLAGS] & 16u) == 0, "no semantic value is handed to a functor, moved or returned after it has been moved from (each value is consumed at most once)");\n',
    'inbuf':     '  CHECK((OUT[O_FLAGS] & 64u) == 0, "the parser never reads at or beyond end() of a caller buffer that is a slice of larger storage");\n',
    'nocopy':    '  CHECK((OUT[O_FLAGS] & 32u) == 0, "no semantic value is copied on its way to a functor (values are moved)");\n',
    'silent':    '  if (OUT[O_OK]) CHECK(OUT[O_NMSG] == 0, "a successful non-verbose parse writes nothing");\n',
}

def writeset_header(unit, allow=r'_ZN2hv|exc_pending'):
    """ws_check(p): p must not point into any module global of the unit (parser constant, regex_parser_object, c_names, string tables ...) except harness state"""
    import re
    gl = [g['c'] for g in unit.info.get('globals', []) if not re.search(allow, g['c'])]
    o = ['#ifdef __CPROVER__', 'void ws_check(void* p) {']
    for g in gl: o.append('  __CPROVER_assert(!__CPROVER_same_object(p, (void*)&%s), "WRITESET: write through a pointer into module global %s");' % (g, g))
    o += ['}', '#else', 'void ws_check(void* p) { (void)p; }', '#endif', '#define WS_GLOBALS %d' % len(gl)]
    return '\n'.join(o) + '\n'

class ParseCase:
    """one (grammar, LEN, options) instantiation: a C++ unit + harness text + bounds"""
    def __init__(self, wd, g, L, asserts, ws=0, nl=0, verbose=0, mode='functional', tag='', extra_body='', wrapper=None, in_assume=None,
                 witness=None, extra_defs=(), lr=None, ctx=None, variant='plain', ctxkind=0):
        self.variant = variant; self.ctxkind = ctxkind
        self.g = g; self.L = L; self.asserts = list(asserts); self.ws = ws; self.nl = nl; self.verbose = verbose; self.mode = mode
        self.lr = lr or lr1.LR1(g)
        b = lr1.bounds(g, self.lr, L, verbose=bool(verbose))
        if g.tkinds or ws or nl:   # byte level, or skipped whitespace: L bytes may hold fewer than L terms (and a shorter accepted input can take MORE steps than any L-term input)
            for l2 in range(0, L):
                b2 = lr1.bounds(g, self.lr, l2, verbose=bool(verbose))
                for k in ('steps', 'depth', 'nmsg', 'nred', 'nterm'): b[k] = max(b[k], b2[k])
                b['accepted'] += b2['accepted']
        self.b = b
        self.maxmsg = b['nmsg'] + 1; self.maxred = max(b['nred'], 1) + 1; self.maxterm = max(b['nterm'], 1) + 1
        self.D = b['steps'] + 3
        self.hashlog = 'trace' in self.asserts
        if self.hashlog:
            bs = lr1.bounds(g, self.lr, L, verbose=True)
            self.maxst = bs['nstates_printed'] + 1; self.maxmsg = 1
        self.name = '%s_L%d_o%d%d%d%s%s' % (g.name, L, ws, nl, verbose, tag, '' if variant == 'plain' else '_%s%d' % (variant, ctxkind))
        self.defs = ['LEN=%d' % L, 'MAXMSG=%d' % self.maxmsg, 'MAXRED=%d' % self.maxred, 'MAXTERM=%d' % self.maxterm,
                     'OPT_WS=%d' % ws, 'OPT_NL=%d' % nl, 'OPT_VERBOSE=%d' % verbose,
                     'OPT_MASK=%s' % ('0xff00' if variant == 'ctx' else '0xffff00' if variant == 'slice' else '0xffffff00' if variant == 'hist' else '0'), 'OPT_FIXED=%d' % (ws | (nl << 1) | (verbose << 2)), 'LEXMAX=%d' % max(L, 1),
                     'RSTEPS=%d' % (b['steps'] + 2), 'RSTK=%d' % (b['depth'] + 2)] + list(extra_defs)
        if self.hashlog: self.defs += ['HASHLOG', 'MAXST=%d' % self.maxst]
        self.wd = wd
        cpp = wrapper or emit.parse_wrapper_cpp(g, variant=variant, ctxkind=ctxkind)
        self.unit = vlib.Unit(wd, 'u_' + self.name, cpp, defines=self.defs, ir2c_flags=(['--writeset', '--ws-allow=_ZN2hv|exc_pending'] if mode == 'writeset' else []))
        body = ''.join(ORACLES[a] for a in self.asserts) + extra_body
        self.harness = emit.parse_harness_c(os.path.basename(self.unit.c), lr1.emit_tables(g, self.lr), body, variant=variant, lex_c=(lexref.LexDFA(g.tkinds).emit_c() if g.tkinds else None))
        self.in_assume = in_assume; self.witness = witness
        self.native = {}

    def bounds(self):
        L = self.L; g = self.g
        return {'context_parse': self.D, 'skip_whitespace': L + 2, 'find_char': 8, 'update': L + 2, 'erase': max(g.max_rhs, self.b['depth']) + 2,
                'name_to_term': g.term_count + 1, 'dfa_match': L + 2, 'pop_stacks': 2, 'write_rule_diag_str': g.max_rhs + 1,
                'flush': max(self.maxmsg, self.maxred, self.maxterm, getattr(self, 'maxst', 0)) + 1,
                'h_run': max(self.D, L + 2)}   # when the optimiser merges wrapper code into the driver loop the loop is attributed to the wrapper
    def fn_bounds(self):
        L = self.L
        big = max(self.maxmsg, self.maxred, self.maxterm, getattr(self, 'maxst', 0), len(self.lr.states) + 1) + 2
        return {'ref_parse': self.b['steps'] + 3, 'ref_advance': L + 1, 'harness': L + 1, 'ora_.*': big, 'oracle': big}
    def default_unwind(self):
        return max(self.L, self.g.max_rhs) + 2

    def query(self, qid=None, witness=False, timeout=900, mem_gb=12, extra_defs=(), witness_expr=None, wtag=''):
        defs = list(self.defs) + list(extra_defs)
        if self.in_assume: defs.append('IN_ASSUME=%s' % self.in_assume)
        if self.mode == 'writeset':
            wsh = os.path.join(self.wd, 'ws_%s.h' % self.name)
            with open(wsh, 'w') as f: f.write(writeset_header(self.unit))
            defs.append('WS_HEADER="%s"' % os.path.basename(wsh))
        h = self.harness
        if witness:
            # witness twin: same harness, the final assertions replaced by the negation of a reachable interesting outcome
            h = h.replace('static void oracle(void) {', 'static void oracle_unused(void) {', 1)
            h = h.replace('#ifdef __CPROVER__\nuint8_t nondet_uchar', 'static void oracle(void) { struct ref_out R; ref_parse(IN, LEN, OPTS & 1u, (OPTS >> 1) & 1u, (OPTS >> 2) & 1u, &R);\n  WITNESS(%s, "interesting outcome reachable"); }\n#ifdef __CPROVER__\nuint8_t nondet_uchar' % (witness_expr or self.witness), 1)
        q = vlib.Query((qid or ('q_' + self.name)) + (('_wit' + wtag) if witness else ''), self.unit, h, bounds=self.bounds(), fn_bounds=self.fn_bounds(),
                       default_unwind=self.default_unwind(), mode=('functional' if self.mode == 'writeset' else self.mode), defines=defs,
                       expect=('witness' if witness else 'hold'), timeout=timeout, mem_gb=mem_gb, inputs=['IN', 'OPTS', 'ANS_IDX', 'ANS_LEN'],
                       meta={'unit': self.g.name, 'L': self.L, 'opts': [self.ws, self.nl, self.verbose], 'asserts': self.asserts, 'case': self})
        return q

    # ---- native builds: 'real' = g++ build of the wrapper against /repo; 'xlat' = gcc build of the translated C
    def build_native(self):
        d = self.wd
        hc = os.path.join(d, 'n_' + self.name + '.c')
        with open(hc, 'w') as f: f.write(self.harness)
        shim = os.path.join(d, 'shim_%s.cpp' % self.variant)
        if not os.path.exists(shim):
            with open(shim, 'w') as f: f.write(emit.native_shim_cpp(self.variant))
        ok1, p1 = vlib.native_build(d, 'real_' + self.name, [self.unit.cpp, shim, hc], defines=self.defs + ['USE_REAL'])
        ok2, p2 = vlib.native_build(d, 'xlat_' + self.name, [hc], defines=self.defs + ['NO_R4'], cxx='gcc')
        self.native = {'real': p1 if ok1 else None, 'xlat': p2 if ok2 else None, 'err': (None if ok1 else p1) or (None if ok2 else p2)}
        return self.native

    def run_native(self, which, inbytes, opts=None, extra=None):
        exe = self.native.get(which)
        if not exe: return None
        o = self.ws | (self.nl << 1) | (self.verbose << 2) if opts is None else opts
        xa = []
        if extra and extra.get('ANS_IDX') is not None:
            xa = [','.join(str(x) for x in extra['ANS_IDX']), ','.join(str(x) for x in (extra.get('ANS_LEN') or []))]
        rc, out, w, _ = vlib.run([exe, vlib.hexs(inbytes), str(o)] + xa, timeout=20)
        res = {'rc': rc, 'out': None, 'verdict': None, 'why': ''}
        for ln in out.split('\n'):
            if ln.startswith('OUT '): res['out'] = ln[4:].strip()
            if ln.startswith('VERDICT '):
                p = ln.split(' ', 2); res['verdict'] = p[1]; res['why'] = p[2] if len(p) > 2 else ''
        if rc != 0 and res['verdict'] is None: res['verdict'] = 'CRASH'; res['why'] = 'rc=%d %s' % (rc, out[-200:])
        return res

    def sample_inputs(self, seed, n_random=64, max_enum=400):
        """the repo-test-like inputs for this unit: all class strings (terms + space + other) up to a cap, plus seeded random bytes"""
        g = self.g; L = self.L
        alpha = [ord('a') + k for k in range(g.nt)] + [ord(' '), ord('\n'), ord('@'), 0, 0x80]
        ins = []
        allc = itertools.product(alpha, repeat=L)
        for k, t in enumerate(allc):
            if k >= max_enum: break
            ins.append(list(t))
        rnd = random.Random(seed * 7919 + L)
        for _ in range(n_random):
            ins.append([rnd.choice(alpha) if rnd.random() < 0.8 else rnd.randrange(256) for _ in range(L)])
        return ins

    def translation_validation(self, seed):
        """run real (g++) and translated (gcc) builds on the sample inputs; outputs must agree exactly"""
        if not self.native: self.build_native()
        if not self.native.get('real') or not self.native.get('xlat'):
            return {'ok': False, 'n': 0, 'why': 'native build failed: %s' % self.native.get('err')}
        n = 0
        rnd = random.Random(seed)
        for inp in self.sample_inputs(seed):
            extra = None; opts = None
            if self.variant == 'anslex':
                extra = {'ANS_IDX': [rnd.choice(list(range(self.g.nt)) + [0xffff]) for _ in range(self.L)], 'ANS_LEN': [rnd.randint(1, max(1, self.L - i)) for i in range(self.L)]}
            if self.variant == 'ctx': opts = (self.ws | (self.nl << 1) | (self.verbose << 2)) | (rnd.randrange(256) << 8)
            if self.variant == 'hist': opts = (self.ws | (self.nl << 1) | (self.verbose << 2)) | (rnd.randrange(1 << 24) << 8)
            if self.variant == 'slice': opts = (self.ws | (self.nl << 1) | (self.verbose << 2)) | (rnd.choice([32, 10, 9, 97, 0, 255]) << 8) | (rnd.choice([32, 10, 97, 0]) << 16)
            a = self.run_native('real', inp, opts, extra); b = self.run_native('xlat', inp, opts, extra); n += 1
            if a is not None and b is not None and a['out'] is None and b['out'] is None and a['rc'] == b['rc'] and a['rc'] < 0: continue   # both builds crash the same way (a listed finding)
            if a is None or b is None or a['out'] != b['out'] or a['out'] is None:
                return {'ok': False, 'n': n, 'why': 'real and translated disagree on %s: %s / %s' % (vlib.hexs(inp), a and (a['out'] or a['why'])[:120], b and (b['out'] or b['why'])[:120])}
        return {'ok': True, 'n': n, 'why': ''}
