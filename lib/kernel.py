#!/usr/bin/env python3
"""Generic kernel harness: a C++ wrapper TU exposing extern "C" leaf functions of the real header, a C harness with fully
symbolic inputs, a short reference written from the documentation, native builds for translation validation and replay."""
import os, sys, json, random
import vlib

CT_NONDET = {'uint8_t': 'nondet_uchar()', 'uint16_t': 'nondet_ushort()', 'uint32_t': 'nondet_uint()', 'int32_t': 'nondet_int()', 'uint64_t': 'nondet_ulong()'}

TEMPLATE = '''#ifdef USE_REAL
#include <stdint.h>
#include <string.h>
#include <stddef.h>
%(decl_real)s
#define K(f) f##_guard
int exc_pending = 0;
#else
#include "%(unit_c)s"
#define K(f) g_##f
#endif
#include "rt.h"
#include "check.h"
enum { RF_HASH = 0, RF_DEFAULT = 1, RF_E1 = 2, RF_E2 = 3, RF_E3 = 4, RF_CTXHASH = 5 };
%(globals)s
%(ref_c)s
static void run_case(void) {
%(call_c)s
}
static void oracle(void) {
#ifdef WITNESS_ON
  WITNESS(%(witness)s, "interesting outcome reachable");
#else
%(oracle_c)s
#endif
}
#ifdef __CPROVER__
uint8_t nondet_uchar(void); uint16_t nondet_ushort(void); uint32_t nondet_uint(void); int32_t nondet_int(void); uint64_t nondet_ulong(void);
void harness(void) {
%(nondet)s
  __CPROVER_assume(%(assume)s);
#ifdef KNOWN_EXCLUDE
  __CPROVER_assume(KNOWN_EXCLUDE);
#endif
#ifdef KNOWN_ONLY
  __CPROVER_assume(KNOWN_ONLY);
#endif
  run_case();
  oracle();
}
#else
#include <stdio.h>
#include <stdlib.h>
static void setvar(const char* a) {
  const char* eq = strchr(a, '='); if (!eq) return;
  size_t nl = (size_t)(eq - a);
%(parse)s
}
int main(int argc, char** argv) {
  for (int i = 1; i < argc; i++) setvar(argv[i]);
  if (!(%(assume)s)) { printf("VERDICT SKIP precondition\\n"); return 0; }
  run_case();
  oracle();
  printf("OUT"); %(dump)s
  printf("\\nVERDICT %%s %%s\\n", check_failures ? "FAIL" : "OK", check_failures ? check_first : "");
  return 0;
}
#endif
'''

GUARD_CPP = '''// native shim: exceptions escaping a wrapper become exc_pending (the translated C models them the same way)
extern "C" int exc_pending;
'''

class Kernel:
    """inputs: list of (name, ctype, count); outputs: list of (name, ctype, count) (globals the call writes, dumped for translation validation)
       protos: list of (ret, fname, [argtypes]) -- the extern "C" wrappers' C prototypes"""
    def __init__(self, wd, name, cpp, protos, inputs, outputs, call_c, oracle_c, ref_c='', assume='1', witness='1', bounds=None, fn_bounds=None,
                 default_unwind=4, defines=(), mode='functional', samples=None, meta=None, timeout=600, mem_gb=8, ir2c_flags=()):
        self.wd = wd; self.name = name; self.inputs = inputs; self.outputs = outputs; self.protos = protos
        self.defines = list(defines); self.mode = mode; self.samples = samples; self.meta = meta or {}
        self.timeout = timeout; self.mem_gb = mem_gb; self.assume = assume
        self.bounds = bounds or {}; self.fn_bounds = dict(fn_bounds or {}); self.default_unwind = default_unwind
        guards = [GUARD_CPP]
        for ret, fn, args in protos:
            an = ['a%d' % i for i in range(len(args))]
            guards.append('extern "C" %s %s(%s);' % (ret, fn, ', '.join(args)))
            body = 'try { %s%s(%s); } catch (...) { exc_pending = 1; %s }' % ('' if ret == 'void' else 'return ', fn, ', '.join(an), '' if ret == 'void' else 'return 0;')
            guards.append('extern "C" %s %s_guard(%s) { %s }' % (ret, fn, ', '.join('%s %s' % (t, a) for t, a in zip(args, an)), body))
        self.guard_cpp = '#include <cstdint>\n#include <cstddef>\nusing std::uint8_t; using std::uint16_t; using std::uint32_t; using std::uint64_t; using std::int32_t;\n' + '\n'.join(guards) + '\n'
        self.unit = vlib.Unit(wd, 'k_' + name, cpp, defines=self.defines, ir2c_flags=list(ir2c_flags))
        decl_real = '\n'.join('%s %s_guard(%s);' % (ret, fn, ', '.join(args)) for ret, fn, args in protos)
        gl = '\n'.join('%s %s%s;' % (t, n, '[%d]' % c if c > 1 else '') for n, t, c in inputs + outputs)
        nd = []
        for n, t, c in inputs:
            if c > 1: nd.append('  for (int i = 0; i < %d; i++) %s[i] = %s;' % (c, n, CT_NONDET[t]))
            else: nd.append('  %s = %s;' % (n, CT_NONDET[t]))
        parse = []
        for n, t, c in inputs:
            if c > 1:
                parse.append('  if (nl == %d && !strncmp(a, "%s", nl)) { const char* p = eq + 1; for (int i = 0; i < %d && *p; i++) { %s[i] = (%s)strtoull(p, (char**)&p, 0); if (*p == \',\') p++; } }' % (len(n), n, c, n, t))
            else:
                parse.append('  if (nl == %d && !strncmp(a, "%s", nl)) %s = (%s)strtoull(eq + 1, 0, 0);' % (len(n), n, n, t))
        dump = []
        for n, t, c in outputs:
            if c > 1: dump.append('for (int i = 0; i < %d; i++) printf(" %%llu", (unsigned long long)%s[i]);' % (c, n))
            else: dump.append('printf(" %%llu", (unsigned long long)%s);' % n)
        dump.append('printf(" exc=%d", exc_pending);')
        self.harness = TEMPLATE % {'decl_real': decl_real, 'unit_c': os.path.basename(self.unit.c), 'globals': gl, 'ref_c': ref_c, 'call_c': call_c, 'oracle_c': oracle_c,
                                   'witness': witness, 'nondet': '\n'.join(nd), 'assume': assume, 'parse': '\n'.join(parse), 'dump': ' '.join(dump)}
        self.native = {}

    def query(self, witness=False, extra_defs=()):
        return vlib.Query('q_' + self.name + ('_wit' if witness else ''), self.unit, self.harness, bounds=self.bounds, fn_bounds=self.fn_bounds,
                          default_unwind=self.default_unwind, mode=self.mode, defines=self.defines + (['WITNESS_ON'] if witness else []) + list(extra_defs),
                          expect='witness' if witness else 'hold', timeout=self.timeout, mem_gb=self.mem_gb, inputs=[n for n, _, _ in self.inputs],
                          meta=dict(self.meta, unit=self.name, kernel=self))

    def build_native(self):
        d = self.wd
        hc = os.path.join(d, 'n_' + self.name + '.c'); gc = os.path.join(d, 'guard_' + self.name + '.cpp')
        with open(hc, 'w') as f: f.write(self.harness)
        with open(gc, 'w') as f: f.write(self.guard_cpp)
        ok1, p1 = vlib.native_build(d, 'real_' + self.name, [self.unit.cpp, gc, hc], defines=self.defines + ['USE_REAL'])
        ok2, p2 = vlib.native_build(d, 'xlat_' + self.name, [hc], defines=self.defines + ['NO_R4'], cxx='gcc')
        self.native = {'real': p1 if ok1 else None, 'xlat': p2 if ok2 else None, 'err': (None if ok1 else p1) or (None if ok2 else p2)}
        return self.native

    def args_of(self, vals):
        a = []
        for n, t, c in self.inputs:
            if n in vals:
                v = vals[n]
                a.append('%s=%s' % (n, ','.join(str(x) for x in v) if isinstance(v, list) else str(v)))
        return a

    def run_native(self, which, vals):
        exe = self.native.get(which)
        if not exe: return None
        rc, out, w, _ = vlib.run([exe] + self.args_of(vals), timeout=20)
        res = {'rc': rc, 'out': None, 'verdict': None, 'why': ''}
        for ln in out.split('\n'):
            if ln.startswith('OUT'): res['out'] = ln[3:].strip()
            if ln.startswith('VERDICT '):
                p = ln.split(' ', 2); res['verdict'] = p[1]; res['why'] = p[2] if len(p) > 2 else ''
        if rc != 0 and res['verdict'] is None: res['verdict'] = 'CRASH'; res['why'] = 'rc=%d %s' % (rc, out[-160:])
        return res

    def translation_validation(self, seed, n=48):
        if not self.native: self.build_native()
        if not self.native.get('real') or not self.native.get('xlat'):
            return {'ok': False, 'n': 0, 'why': 'native build failed: %s' % self.native.get('err')}
        rnd = random.Random(seed * 131 + len(self.name))
        k = 0
        gen = self.samples or default_samples
        for vals in gen(self, rnd, n):
            a = self.run_native('real', vals); b = self.run_native('xlat', vals)
            if a['verdict'] == 'SKIP': continue
            k += 1
            if a['out'] != b['out'] or a['out'] is None:
                return {'ok': False, 'n': k, 'why': 'real and translated disagree on %s: %s / %s' % (vals, a['out'] or a['why'], b['out'] or b['why'])}
        return {'ok': True, 'n': k, 'why': ''}

def default_samples(k, rnd, n):
    for _ in range(n):
        vals = {}
        for name, t, c in k.inputs:
            hi = {'uint8_t': 255, 'uint16_t': 65535}.get(t, 0xffffffff)
            def one():
                r = rnd.random()
                if r < 0.5: return rnd.randrange(0, min(hi, 8) + 1)
                if r < 0.8: return rnd.randrange(0, min(hi, 255) + 1)
                return rnd.randrange(0, hi + 1)
            vals[name] = [one() for _ in range(c)] if c > 1 else one()
        yield vals

def run_kernels(run, kernels, witness=True, jobs=None):
    """build, translation-validate, solve, replay"""
    from concurrent.futures import ThreadPoolExecutor
    import report
    vlib.build_units([k.unit for k in kernels], jobs=jobs)
    for k in kernels: run.add_unit(k.unit, desc='kernel ' + k.name)
    good = [k for k in kernels if k.unit.ok]
    with ThreadPoolExecutor(max_workers=jobs or vlib.NCPU) as ex:
        tvs = list(ex.map(lambda k: k.translation_validation(run.seed), good))
    for k, t in zip(good, tvs):
        run.tv_runs += t['n']
        if not t['ok']: run.inconclusive.append('translation validation failed for kernel %s: %s' % (k.name, t['why']))
    qs = []
    for k in good:
        excl = [f for f in run.known if f.get('unit') == k.name and f.get('when_c')]
        ed = ['KNOWN_EXCLUDE=%s' % ' && '.join('!(%s)' % f['when_c'] for f in excl)] if excl else []
        qs.append(k.query(extra_defs=ed))
        if witness: qs.append(k.query(witness=True))
        for i, f in enumerate(excl):
            q = k.query(extra_defs=['KNOWN_ONLY=%s' % f['when_c']]); q.id = 'q_%s_known%d' % (k.name, i); q.expect = 'known'; q.meta['known'] = f
            qs.append(q)
    results = vlib.run_queries(qs, jobs=jobs)
    for r in results:
        run.record(r)
        k = r['meta'].get('kernel')
        handle_kernel_result(run, r, k)
    return results

def handle_kernel_result(run, r, k):
    import report
    exp = r.get('expect')
    if exp == 'witness':
        if r['status'] != 'sat': run.inconclusive.append('witness twin %s did not come back violated (%s %s)' % (r['id'], r['status'], r['reason']))
        return
    if r['status'] == 'unsat': return
    if r['status'] == 'inconclusive':
        run.inconclusive.append('%s: %s' % (r['id'], r['reason'])); return
    vals = r['inputs']
    if not k.native: k.build_native()
    rep = k.run_native('real', vals); run.replays += 1
    props, unwind, mach, other = report.classify_failed(r)
    desc = '; '.join(sorted(set(f['desc'] for f in (props + other + unwind + mach))))[:300]
    if exp == 'known':
        f = r['meta']['known']
        if rep and rep['verdict'] in ('FAIL', 'CRASH'): run.known_finding(f)
        else: run.inconclusive.append('known finding %s: counterexample did not replay' % f['what'])
        return
    robj = {'query': r['id'], 'kind': 'generic', 'module': k.meta.get('module'), 'kernel': k.name, 'inputs': vals, 'input_hex': json.dumps(vals), 'failed': r['failed'][:8], 'native': rep}
    safety_only = not props and all(('PROP:' not in f['desc']) for f in r['failed'])
    if mach and any('no body' in f['desc'] for f in mach):
        run.inconclusive.append('%s: %s' % (r['id'], desc)); return
    if rep and rep['verdict'] in ('FAIL', 'CRASH'):
        run.violation('%s on inputs %s (kernel %s): solver counterexample reproduces natively: %s' % (desc, json.dumps(vals)[:200], k.name, rep['why'][:160]), robj)
    elif k.mode == 'safety' and safety_only and (other or r['failed']) and not unwind:
        # memory-safety / UB findings do not always crash natively (intra-object overflow, pointer formation): reported as found by the solver, flagged as such
        run.violation('%s on inputs %s (kernel %s): undefined behaviour found by the solver (native run shows no symptom: %s)' % (desc, json.dumps(vals)[:200], k.name, rep and rep['verdict']), robj)
    else:
        run.inconclusive.append('%s: %s on %s; native verdict %s' % (r['id'], desc, json.dumps(vals)[:120], rep and rep['verdict']))
