#!/usr/bin/env python3
"""Common machinery: C++ unit -> LLVM IR -> C (ir2c) -> goto-cc -> cbmc; native builds for
translation validation and replay; parallel query runner; evidence writer."""
import os, sys, re, json, time, subprocess, shutil, hashlib, threading, resource
from concurrent.futures import ThreadPoolExecutor, as_completed

VERIF = os.path.dirname(os.path.dirname(os.path.abspath(__file__)))
REPO = os.environ.get('CTPG_REPO', '/repo')
WORK = os.environ.get('VERIF_WORK', os.path.join(VERIF, '.work'))
IR2C = os.path.join(VERIF, 'ir2c', 'ir2c.py')
HARNESS = os.path.join(VERIF, 'harness')
NCPU = int(os.environ.get('VERIF_JOBS', str(os.cpu_count() or 8)))
CLANG_FLAGS = ['-std=c++17', '-O1', '-gline-tables-only', '-fno-vectorize', '-fno-slp-vectorize', '-fno-unroll-loops',
               '-S', '-emit-llvm', '-I' + os.path.join(REPO, 'include'), '-I' + HARNESS, '-DCTPG_VERIF', '-Wno-everything']

class Inconclusive(Exception):
    pass

def run(cmd, timeout=600, mem_gb=None, cwd=None, stdin=None):
    """run a command; returns (rc, output, wall_s, rss_kb). rc=-9 on timeout."""
    t0 = time.time()
    def lim():
        if mem_gb:
            b = int(mem_gb * (1 << 30)); resource.setrlimit(resource.RLIMIT_AS, (b, b))
        os.setsid()
    try:
        p = subprocess.Popen(cmd, stdout=subprocess.PIPE, stderr=subprocess.STDOUT, cwd=cwd, preexec_fn=lim,
                             stdin=subprocess.PIPE if stdin is not None else subprocess.DEVNULL)
        try:
            out, _ = p.communicate(input=stdin, timeout=timeout)
            rc = p.returncode
        except subprocess.TimeoutExpired:
            try: os.killpg(p.pid, 9)
            except Exception: pass
            out, _ = p.communicate(); rc = -9
    except Exception as e:
        return (-1, str(e), time.time() - t0, 0)
    ru = resource.getrusage(resource.RUSAGE_CHILDREN)
    return (rc, out.decode('utf-8', 'replace'), time.time() - t0, ru.ru_maxrss)

def workdir(name, fresh=True):
    d = os.path.join(WORK, name)
    if fresh and os.path.isdir(d): shutil.rmtree(d, ignore_errors=True)
    os.makedirs(d, exist_ok=True)
    return d

def cleanup(name=None):
    d = os.path.join(WORK, name) if name else WORK
    shutil.rmtree(d, ignore_errors=True)

def repo_fingerprint():
    h = hashlib.sha256()
    for root, _, files in os.walk(os.path.join(REPO, 'include')):
        for f in sorted(files):
            with open(os.path.join(root, f), 'rb') as fh: h.update(fh.read())
    return h.hexdigest()[:16]

# ------------------------------------------------------------------ units
class Unit:
    """one C++ translation unit including the real header, lowered to IR and translated to C"""
    def __init__(self, d, name, cpp_text, defines=(), ir2c_flags=(), extra_clang=()):
        self.dir = d; self.name = name; self.defines = list(defines)
        self.cpp = os.path.join(d, name + '.cpp'); self.ll = os.path.join(d, name + '.ll'); self.c = os.path.join(d, name + '.c')
        self.loops_json = os.path.join(d, name + '.loops.json')
        self.ir2c_flags = list(ir2c_flags); self.extra_clang = list(extra_clang)
        with open(self.cpp, 'w') as f: f.write(cpp_text)
        self.ok = False; self.error = None; self.loops = []; self.info = {}
        self.t_clang = self.t_ir2c = 0.0
    def build(self):
        cmd = ['clang++-14'] + CLANG_FLAGS + self.extra_clang + ['-D' + x for x in self.defines] + [self.cpp, '-o', self.ll]
        rc, out, w, _ = run(cmd, timeout=900, mem_gb=24)
        self.t_clang = w
        if rc != 0:
            self.error = 'clang: ' + compiler_error_digest(out); return self
        rc, out, w, _ = run([sys.executable, IR2C, self.ll, self.c, '--loops=' + self.loops_json] + self.ir2c_flags, timeout=300)
        self.t_ir2c = w
        if rc != 0:
            self.error = 'ir2c: ' + out[-1500:]; return self
        self.info = json.load(open(self.loops_json)); self.loops = self.info['loops']
        self.ir_lines = sum(1 for _ in open(self.ll)); self.ok = True
        return self

def compiler_error_digest(out):
    lines = [l for l in out.split('\n') if 'error' in l.lower()]
    return ' | '.join(l.strip()[:240] for l in lines[:6]) or out[-600:]

def native_build(d, exe, sources, defines=(), cxx='g++', opt='-O1', extra=(), timeout=900):
    """build a native executable from C++/C sources against the real header"""
    objs = []
    for s in sources:
        o = os.path.join(d, os.path.basename(s) + '.' + exe + '.o')
        if s.endswith('.c'):
            cmd = ['gcc', '-std=gnu11', opt, '-w', '-I' + HARNESS, '-I' + d] + ['-D' + x for x in defines] + ['-c', s, '-o', o]
        else:
            cmd = [cxx, '-std=c++17', opt, '-w', '-I' + os.path.join(REPO, 'include'), '-I' + HARNESS, '-I' + d, '-DCTPG_VERIF'] + list(extra) + ['-D' + x for x in defines] + ['-c', s, '-o', o]
        rc, out, w, _ = run(cmd, timeout=timeout, mem_gb=24)
        if rc != 0: return (False, compiler_error_digest(out))
        objs.append(o)
    rc, out, w, _ = run([cxx, '-o', os.path.join(d, exe)] + objs + list(x for x in extra if x.startswith('-fsanitize')), timeout=300)
    if rc != 0: return (False, out[-600:])
    return (True, os.path.join(d, exe))

# ------------------------------------------------------------------ queries
CHECK_FLAGS = {
    # functional queries: only user assertions (R4 assertions are compiled out with -DNO_R4)
    'functional': ['--no-standard-checks'],
    # safety queries: all of CBMC's default checks plus the extra ones, and R4 sub-object assertions
    'safety': ['--pointer-overflow-check'],   # plus CBMC 6's standard checks (bounds, pointer, pointer-primitive, div-by-zero, undefined-shift, signed overflow)
}

class Query:
    def __init__(self, qid, unit, harness_text, bounds=None, default_unwind=4, mode='functional', defines=(),
                 expect='hold', timeout=900, mem_gb=12, inputs=('IN',), meta=None, fn_bounds=None, object_bits=12):
        self.id = qid; self.unit = unit; self.harness_text = harness_text
        self.bounds = dict(bounds or {})          # source function name -> unwind bound
        self.fn_bounds = dict(fn_bounds or {})    # C function name (regex) -> bound, for harness-side loops
        self.default_unwind = default_unwind; self.mode = mode; self.defines = list(defines)
        self.expect = expect; self.timeout = timeout; self.mem_gb = mem_gb; self.inputs = list(inputs)
        self.meta = meta or {}; self.object_bits = object_bits
        self.res = None

def parse_show_loops(txt):
    loops = []
    for m in re.finditer(r'Loop (\S+):\n\s+file (\S+) line (\d+) function (\S+)', txt):
        loops.append({'id': m.group(1), 'file': m.group(2), 'line': int(m.group(3)), 'function': m.group(4)})
    return loops

def run_query(q):
    t0 = time.time()
    u = q.unit
    res = {'id': q.id, 'status': 'inconclusive', 'reason': '', 'failed': [], 'inputs': {}, 'wall_s': 0.0, 'solver_s': 0.0,
           'rss_mb': 0, 'vars': 0, 'clauses': 0, 'unwindset': '', 'meta': q.meta, 'expect': q.expect, 'mode': q.mode}
    q.res = res
    def done(status, reason=''):
        res['status'] = status; res['reason'] = reason; res['wall_s'] = round(time.time() - t0, 2); return res
    if not u.ok: return done('inconclusive', 'unit build failed: %s' % u.error)
    hc = os.path.join(u.dir, q.id + '.c'); gb = os.path.join(u.dir, q.id + '.gb')
    with open(hc, 'w') as f: f.write(q.harness_text)
    defs = list(q.defines) + ['__CPROVER__'] + (['NO_R4'] if q.mode == 'functional' else [])
    rc, out, w, _ = run(['goto-cc', '-I' + HARNESS, '-I' + u.dir] + ['-D' + x for x in defs] + [hc, '-o', gb], timeout=300, mem_gb=8)
    if rc != 0: return done('inconclusive', 'goto-cc: ' + out[-800:])
    rc, out, w, _ = run(['cbmc', '--show-loops', gb], timeout=120, mem_gb=8)
    cl = parse_show_loops(out)
    # map cbmc loops to translator loops by C line (the generated unit .c is #included, so file = unit.c)
    # map cbmc loops to translator loops: same C function and C line; several back edges on one line are matched in order
    by_fl = {}
    for lp in u.loops: by_fl.setdefault((lp['cfn'], lp['c_line']), []).append(lp)
    seen_fl = {}
    us = []; unmapped = []
    for l in sorted(cl, key=lambda x: (x['function'], int(x['id'].rsplit('.', 1)[1]))):
        b = None; lp = None
        if os.path.basename(l['file']) == os.path.basename(u.c):
            key = (l['function'], l['line']); k = seen_fl.get(key, 0); seen_fl[key] = k + 1
            cands = by_fl.get(key, [])
            if cands: lp = cands[min(k, len(cands) - 1)]
        if lp is not None:
            # the bound is the largest one named anywhere in the loop's inlining chain (an outer loop merged with inner code keeps the outer bound)
            names = [lp['src_fn']] + list(lp.get('chain') or [])
            bs = [q.bounds[n] for n in names if n in q.bounds]
            if bs: b = max(bs) if lp['src_fn'] not in q.bounds else q.bounds[lp['src_fn']]
        if b is None:
            for pat, bb in q.fn_bounds.items():
                if re.fullmatch(pat, l['function']): b = bb; break
        if b is not None: us.append('%s:%d' % (l['id'], b))
        else: unmapped.append(l['id'])
    res['unwindset'] = ','.join(us); res['loops_default'] = len(unmapped); res['loops_total'] = len(cl)
    cmd = ['cbmc', gb, '--function', 'harness', '--unwind', str(q.default_unwind), '--unwinding-assertions',
           '--drop-unused-functions', '--slice-formula', '--trace', '--verbosity', '8'] + CHECK_FLAGS[q.mode]
    if us: cmd += ['--unwindset', ','.join(us)]
    if q.object_bits: cmd += ['--object-bits', str(q.object_bits)]
    rc, out, w, rss = run(cmd, timeout=q.timeout, mem_gb=q.mem_gb)
    res['rss_mb'] = rss // 1024
    log = os.path.join(u.dir, q.id + '.log')
    with open(log, 'w') as f: f.write('\n'.join(l for l in out.split('\n') if not l.startswith(('Unwinding loop', 'Not unwinding'))))
    m = re.search(r'(\d+) variables, (\d+) clauses', out)
    if m: res['vars'] = int(m.group(1)); res['clauses'] = int(m.group(2))
    for m in re.finditer(r'Runtime (Solver|decision procedure): ([\d.]+)s', out): res['solver_s'] = max(res['solver_s'], float(m.group(2)))
    m = re.search(r'Runtime Symex: ([\d.]+)s', out)
    if m: res['symex_s'] = float(m.group(1))
    if rc == -9: return done('inconclusive', 'timeout after %ds' % q.timeout)
    if 'ran out of memory' in out: return done('inconclusive', 'SAT solver ran out of memory (limit %s GB)' % q.mem_gb)
    if re.search(r'^(.*\bERROR\b.*|.*\(error.*|.*Invariant check failed.*|.*std::bad_alloc.*)$', out, re.M) and 'VERIFICATION' not in out:
        return done('inconclusive', 'tool error: ' + (re.search(r'^(.*(ERROR|\(error|Invariant|bad_alloc).*)$', out, re.M).group(1))[:300])
    failed = re.findall(r'^\[([^\]]+)\] (?:line \d+ )?(.*): FAILURE$', out, re.M)
    # stand-ins for external typeinfo / vtable objects are one pointer wide; pointer arithmetic in their static initialisers is not code under test
    ignored = [(a, b) for a, b in failed if re.search(r'pointer outside object bounds in &g__ZT[VI]', b)]
    failed = [x for x in failed if x not in ignored]
    res['failed'] = [{'prop': a, 'desc': b[:200]} for a, b in failed]
    # source attribution of failed checks inside the translated unit: C line -> (inlining chain, ctpg.hpp line)
    sm = u.info.get('srcmap') or {}
    for m2 in re.finditer(r'^\[([^\]]+)\] line (\d+) (.*): FAILURE$', out, re.M):
        for f in res['failed']:
            if f['prop'] == m2.group(1) and m2.group(2) in sm: f['src'] = sm[m2.group(2)]; f['desc'] = (f['desc'] + ' [at ' + sm[m2.group(2)] + ']')[:260]
    if ignored and not failed and 'VERIFICATION FAILED' in out: out = out.replace('VERIFICATION FAILED', 'VERIFICATION SUCCESSFUL (after ignoring stand-in initialisers)')
    res['n_props'] = len(re.findall(r': (?:SUCCESS|FAILURE)$', out, re.M))
    if 'VERIFICATION SUCCESSFUL' in out: return done('unsat')
    if 'VERIFICATION FAILED' in out:
        res['inputs'] = parse_trace_inputs(out, q.inputs)
        return done('sat')
    return done('inconclusive', 'no verdict (rc=%d): %s' % (rc, out[-400:].replace('\n', ' | ')))

def parse_trace_inputs(out, names):
    vals = {}
    tr = out.split('Trace for', 1)
    txt = tr[1] if len(tr) > 1 else out
    for n in names:
        arr = {}
        for m in re.finditer(r'^\s*%s\[(\d+)l?\]=(-?\d+)' % re.escape(n), txt, re.M): arr[int(m.group(1))] = int(m.group(2))
        for m in re.finditer(r'^\s*%s=\{([^}]*)\}' % re.escape(n), txt, re.M):
            try:
                xs = [int(x.strip()) for x in m.group(1).split(',') if x.strip()]
                # whole-array assignment (initialisation); later element assignments override
                for i, x in enumerate(xs): arr.setdefault(i, x)
            except ValueError: pass
        if arr:
            vals[n] = [arr.get(i, 0) & 0xffffffffffffffff for i in range(max(arr) + 1)]; continue
        ms = re.findall(r'^\s*%s=(-?\d+)' % re.escape(n), txt, re.M)
        if ms: vals[n] = int(ms[-1])
    return vals

def run_queries(queries, jobs=None, progress=True):
    jobs = jobs or NCPU
    results = []
    with ThreadPoolExecutor(max_workers=jobs) as ex:
        futs = {ex.submit(run_query, q): q for q in queries}
        for f in as_completed(futs):
            q = futs[f]
            try: r = f.result()
            except Exception as e:
                r = {'id': q.id, 'status': 'inconclusive', 'reason': 'exception %r' % e, 'failed': [], 'inputs': {}, 'wall_s': 0, 'solver_s': 0,
                     'rss_mb': 0, 'vars': 0, 'clauses': 0, 'meta': q.meta, 'expect': q.expect, 'mode': q.mode}
                q.res = r
            results.append(r)
            if progress:
                print('  [%s] %-44s %-12s %6.1fs %5dMB %s' % (time.strftime('%H:%M:%S'), r['id'][:44], r['status'], r['wall_s'], r['rss_mb'],
                      (r['reason'] or (r['failed'][0]['desc'] if r['failed'] else ''))[:90]), flush=True)
    return results

def build_units(units, jobs=None):
    jobs = jobs or NCPU
    with ThreadPoolExecutor(max_workers=jobs) as ex:
        list(ex.map(lambda u: u.build(), units))
    return units

# ------------------------------------------------------------------ known findings
def load_known():
    p = os.path.join(VERIF, 'known_findings.json')
    if not os.path.exists(p): return []
    return [k for k in json.load(open(p))['findings'] if k.get('kind') == 'known']

# ------------------------------------------------------------------ evidence
def write_evidence(pid, tier, seed, coverage, assumptions, wall_s, violations):
    os.makedirs(os.path.join(VERIF, 'evidence'), exist_ok=True)
    ev = {'property_id': pid, 'tier': tier, 'seed': seed, 'level': 'model_checking', 'coverage': coverage,
          'assumptions': assumptions, 'wall_s': round(wall_s, 1), 'violations': violations}
    with open(os.path.join(VERIF, 'evidence', pid + '.json'), 'w') as f: json.dump(ev, f, indent=1)
    return ev

def hexs(bs): return ''.join('%02x' % (b & 255) for b in bs)
