#!/usr/bin/env python3
"""Program families (the enumerated dimension, DESIGN section 4)."""
import random
from lr1 import Grammar, LR1, simulate
import itertools

def T(name, prec=0, assoc='none'): return (name, prec, assoc)

def g_dir():
    """directed grammar shapes named by the properties; all conflict-free LR(1)"""
    G = []
    G.append(Grammar('d1', ['S', 'C', 'Y'], ['a', 'b'], 'S',
        [('S', ['a', 'C']), ('C', ['b']), ('C', ['Y', 'C']), ('Y', ['a'])], note='maximal-arity rule ending in a nonterminal, next rule starting with a nonterminal'))
    G.append(Grammar('d2', ['S', 'T', 'A'], ['a', 'x'], 'S',
        [('S', ['A', 'x']), ('S', ['T']), ('S', ['x', 'T']), ('T', ['A', 'x', 'x']), ('A', ['a'])], note='two states sharing a closure item; needs LR(1) lookahead'))
    G.append(Grammar('lrec', ['L'], ['a', 'b'], 'L', [('L', ['L', 'a']), ('L', ['b'])], note='left recursion'))
    G.append(Grammar('rrec', ['R'], ['a', 'b'], 'R', [('R', ['a', 'R']), ('R', ['b'])], note='right recursion'))
    G.append(Grammar('lrece', ['L'], ['a'], 'L', [('L', []), ('L', ['L', 'a'])], note='left recursion with empty rule'))
    G.append(Grammar('rrece', ['R'], ['a'], 'R', [('R', []), ('R', ['a', 'R'])], note='right recursion with empty rule'))
    G.append(Grammar('etf', ['E', 'T', 'F'], ['n', '+', '*', '(', ')'], 'E',
        [('E', ['E', '+', 'T']), ('E', ['T'], {'f': 'default'}), ('T', ['T', '*', 'F']), ('T', ['F'], {'f': 'default'}), ('F', ['(', 'E', ')']), ('F', ['n'])], note='textbook unambiguous expression grammar'))
    G.append(Grammar('chain', ['S', 'A', 'B', 'C'], ['a', 'b'], 'S',
        [('S', ['A'], {'f': 'default'}), ('A', ['B'], {'f': 'default'}), ('B', ['C'], {'f': 'default'}), ('C', ['a']), ('C', ['a', 'C', 'b'])], note='unit chain'))
    G.append(Grammar('lalr', ['S', 'E', 'F'], ['a', 'b', 'c', 'd', 'e'], 'S',
        [('S', ['a', 'E', 'c']), ('S', ['a', 'F', 'd']), ('S', ['b', 'F', 'c']), ('S', ['b', 'E', 'd']), ('E', ['e']), ('F', ['e'])], note='LR(1) but not LALR(1)'))
    G.append(Grammar('unused', ['S', 'U'], ['a', 'u'], 'S', [('S', ['a']), ('S', ['a', 'S']), ('U', ['u'])], note='unused nonterminal and term'))
    G.append(Grammar('nullrun', ['S', 'A', 'B'], ['a', 'b', 'c'], 'S',
        [('S', ['A', 'B', 'a']), ('A', []), ('A', ['b']), ('B', []), ('B', ['c'])], note='several nullable symbols in a row before a term'))
    G.append(Grammar('nrun4', ['S', 'A'], ['a'], 'S', [('S', ['A', 'A', 'A', 'A', 'a']), ('A', [])], note='four nullable symbols before the first term (stack capacity arithmetic)'))
    G.append(Grammar('nrun3', ['S', 'A', 'B', 'C'], ['x'], 'S', [('S', ['x', 'S']), ('S', ['A', 'B', 'C']), ('A', []), ('B', []), ('C', [])],
                     note='right-recursive list ending in three empty rules: every input character is a token and three extra values sit on the stack at once'))
    G.append(Grammar('mutual', ['S', 'T'], ['a', 'b', 'c', 'd'], 'S', [('S', ['a', 'T']), ('S', ['b']), ('T', ['c', 'S']), ('T', ['d'])], note='mutual recursion'))
    G.append(Grammar('mutleft', ['A', 'B'], ['a', 'b', 'c', 'd'], 'A', [('A', ['B', 'a']), ('A', ['c']), ('B', ['A', 'b']), ('B', ['d'])], note='mutually left-recursive nonterminals'))
    G.append(Grammar('pal', ['S'], ['a', 'b'], 'S', [('S', ['a', 'S', 'a']), ('S', ['b'])], note='centre-marked nesting'))
    G.append(Grammar('trail', ['S', 'A'], ['a', 'b'], 'S', [('S', ['a', 'A']), ('S', ['b', 'A', 'b']), ('A', []), ('A', ['a', 'A'])], note='trailing nullable with lookahead-dependent reduce'))
    G.append(Grammar('interl', ['L', 'I'], ['a', 'b'], 'L', [('L', ['I']), ('I', ['a']), ('L', ['L', 'I']), ('I', ['b'])], note='rules of different nonterminals interleaved: declaration order differs from the order sorted by left side'))
    G.append(Grammar('nulfirst', ['S', 'B', 'X', 'N'], ['b', 'c', 'd', 'n'], 'S', [('S', ['B', 'X', 'd']), ('B', ['b']), ('X', []), ('X', ['N', 'c']), ('N', []), ('N', ['n'])],
                     note='a nullable rule declared before a rule that starts with another nullable nonterminal; FIRST of the tail is a lookahead source'))
    G.append(Grammar('lrnul', ['S', 'B', 'A'], ['b', 'c'], 'S', [('S', ['B', 'A']), ('B', ['c']), ('A', ['A', 'b']), ('A', [])],
                     note='a nullable, directly left-recursive nonterminal right after another nonterminal: FIRST(A) must contain what follows the leading A'))
    G.append(Grammar('lrnul2', ['S', 'B', 'A', 'E'], ['b', 'c', 'd'], 'S', [('S', ['B', 'A', 'd']), ('B', ['c']), ('A', ['A', 'b']), ('A', ['E']), ('E', [])], note='same, nullable through a second nonterminal'))
    G.append(Grammar('firstchain', ['S', 'B', 'A', 'C', 'D'], ['b', 'c', 'd', 'e'], 'S', [('S', ['B', 'A', 'd']), ('B', ['b']), ('A', ['C', 'D']), ('C', []), ('C', ['c']), ('D', []), ('D', ['e'])],
                     note='FIRST through a chain of nullable nonterminals after a nonterminal'))
    G.append(Grammar('firstmut', ['S', 'B', 'A', 'C'], ['a', 'b', 'c', 'd'], 'S', [('S', ['B', 'A', 'd']), ('B', ['b']), ('A', []), ('A', ['C', 'a']), ('C', []), ('C', ['A', 'c'])],
                     note='FIRST of mutually left-recursive nullable nonterminals'))
    G.append(Grammar('dflt', ['S', 'A', 'B'], ['a', 'b', 'c'], 'S', [('S', ['A', 'B'], {'f': 'default'}), ('A', ['a']), ('A', ['a', 'A'], {'f': 'default'}), ('B', ['b', 'A', 'c'], {'f': 'default'}), ('B', ['c'], {'f': 'default'})],
                     note='rules WITHOUT functor with two and three right-side symbols of mixed kinds (needs the aggregate value type)'))
    G.append(Grammar('tconv', ['E', 'T', 'P'], ['a', 'b', 'c'], 'E', [('E', ['E', 'P', 'T']), ('E', ['T'], {'f': 'e1'}), ('T', ['a'], {'f': 'e1'}), ('P', ['b'], {'f': 'e1'}), ('P', ['c'], {'f': 'default'})],
                     note='functors whose result type is not the left side\'s value type but ANOTHER value type of the grammar (term_value<unsigned> -> unsigned): the node must be stored as the left side\'s type'))
    G.append(Grammar('e123', ['S', 'P'], ['a', 'b', 'c'], 'S', [('S', ['P', 'b', 'c'], {'f': 'e1'}), ('S', ['a', 'P', 'c'], {'f': 'e2'}), ('S', ['c', 'a', 'P'], {'f': 'e3'}), ('P', ['b']), ('P', ['a', 'a'])], note='helper functors _e1.._e3 and default functors'))
    return G

def g_err():
    """grammars with the error symbol at different depths / positions"""
    G = []
    G.append(Grammar('er1', ['root', 'list'], ['x', ';', 'y'], 'root',
        [('root', ['list', ';'], {'f': 'e1'}), ('root', ['error', ';']), ('list', []), ('list', ['list', 'x'])], note='test-suite grammar: error at the start of the root rule'))
    G.append(Grammar('er2', ['S', 'E'], ['n', '+', ';'], 'S',
        [('S', []), ('S', ['S', 'E', ';']), ('S', ['S', 'error', ';'], {'f': 'e1'}), ('E', ['E', '+', 'n']), ('E', ['n'])], note='README shape: statement list with error statement'))
    G.append(Grammar('er3', ['S', 'B'], ['(', ')', 'a'], 'S',
        [('S', ['a']), ('S', ['(', 'B', ')']), ('B', ['S']), ('B', ['B', 'S']), ('B', ['error'])], note='error deep inside brackets'))
    G.append(Grammar('ersr', ['root', 'stmt'], ['x', ';'], 'root', [('root', ['stmt', ';']), ('root', ['stmt', 'error', ';']), ('stmt', ['x']), ('stmt', ['x', 'error'])],
                     note='shift/reduce conflict on the error token itself (resolved as shift)'))
    G.append(Grammar('er5', ['S', 'T'], ['x', ';'], 'S', [('S', ['S', 'T']), ('S', []), ('T', ['x', ';']), ('T', ['error'])],
                     note='a rule that ENDS in the error symbol at top level: after discarding the last term of the input the parser can still act on <eof>'))
    G.append(Grammar('er4', ['S', 'I'], ['a', 'b', ';'], 'S',
        [('S', ['I']), ('S', ['S', ';', 'I']), ('I', ['a', 'b']), ('I', ['error', 'b'])], note='error followed by a synchronising term'))
    return G

def g_prec():
    """ambiguous operator grammars with precedence/associativity declarations (S/R conflicts resolved by the README rules)"""
    G = []
    def ex(name, plus, times, extra_rules=(), extra_terms=()):
        terms = [T('n'), T('+', *plus), T('*', *times)] + list(extra_terms)
        rules = [('E', ['n']), ('E', ['E', '+', 'E']), ('E', ['E', '*', 'E'])] + list(extra_rules)
        return Grammar(name, ['E'], terms, 'E', rules, note='+ %s, * %s' % (plus, times))
    G.append(ex('p_ll', (1, 'ltor'), (2, 'ltor')))
    G.append(ex('p_rr', (1, 'rtol'), (2, 'rtol')))
    G.append(ex('p_lr', (2, 'ltor'), (1, 'rtol')))
    G.append(ex('p_eq', (1, 'ltor'), (1, 'ltor')))
    G.append(ex('p_eqr', (1, 'rtol'), (1, 'rtol')))
    G.append(ex('p_none', (1, 'none'), (2, 'none')))
    G.append(ex('p_def', (0, 'none'), (0, 'none')))
    G.append(ex('p_neg', (1, 'ltor'), (2, 'ltor'), extra_rules=[('E', ['-', 'E'], {'prec': 3})], extra_terms=[T('-', 1, 'ltor')]))
    G.append(ex('p_expl', (1, 'ltor'), (2, 'ltor'), extra_rules=[('E', ['E', '-', 'E'], {'prec': 3})], extra_terms=[T('-', 0, 'none')]))
    G.append(Grammar('p_perm', ['P', 'S'], [T('i', 2, 'none'), T('e', 1, 'none'), T('x')], 'P', [('S', ['i', 'S', 'e', 'S']), ('S', ['i', 'S']), ('S', ['x']), ('P', ['S'], {'f': 'default'})],
                     note='dangling else with precedences (reduce preferred), rules NOT listed in nterms order: rule numbers differ from sorted positions'))
    G.append(Grammar('p_perm2', ['P', 'S'], [T('i', 1, 'none'), T('e', 2, 'none'), T('x')], 'P', [('S', ['i', 'S', 'e', 'S']), ('S', ['i', 'S']), ('S', ['x']), ('P', ['S'], {'f': 'default'})],
                     note='same permuted rule order, SHIFT preferred, the shift item listed before the reduce item: the conflict record of the shift-first branch'))
    G.append(Grammar('p_else', ['S'], [T('i'), T('e', 1, 'rtol'), T('x')], 'S', [('S', ['x']), ('S', ['i', 'S']), ('S', ['i', 'S', 'e', 'S'])], note='dangling else, shift preferred'))
    return G

def productive(g, lr, maxlen=5):
    n = 0
    for L in range(maxlen + 1):
        for t in itertools.product(range(g.nt), repeat=L):
            if lr.accepts(t): n += 1
            if n >= 3: return True
    return False

def g_rand(seed, count, want='conflict_free', max_tries=4000):
    """seeded random small grammars: <=3 nonterminals, <=3 terms, <=5 rules, arity <=3"""
    rnd = random.Random(seed); out = []; tries = 0; seen = set()
    while len(out) < count and tries < max_tries:
        tries += 1
        nn = rnd.randint(1, 3); nt = rnd.randint(2, 3); nr = rnd.randint(nn + 1, 5)
        nts = ['N%d' % i for i in range(nn)]; ts = [chr(ord('a') + i) for i in range(nt)]
        rules = []
        for i in range(nr):
            lhs = nts[i] if i < nn else rnd.choice(nts)
            k = rnd.choice([0, 1, 1, 2, 2, 3])
            rhs = [rnd.choice(nts) if rnd.random() < 0.4 else rnd.choice(ts) for _ in range(k)]
            rules.append((lhs, rhs))
        key = repr(rules)
        if key in seen: continue
        seen.add(key)
        try:
            g = Grammar('r%d_%d' % (seed, len(out)), nts, ts, nts[0], rules, note='random')
            lr = LR1(g)
        except Exception: continue
        if len(lr.states) > 24: continue
        if want == 'conflict_free' and not lr.conflict_free: continue
        if want == 'sr' and not (lr.has_sr and not lr.has_rr): continue
        if want == 'rr' and not lr.has_rr: continue
        if want == 'conflict_free' and not productive(g, lr): continue
        out.append(g)
    return out

# ------------------------------------------------------------------ term sets for the generated lexer (T-sets)
def CH(c): return dict(kind='char', c=ord(c), name=c)
def ST(s): return dict(kind='str', s=s, name=s)
def RE(p, name): return dict(kind='regex', pattern=p, name=name)

def g_lex(name, tks, note=''):
    """S -> S K | K ; K -> t_i for every term: every token sequence is syntactically valid, the functor log is the token stream"""
    terms = [(t['name'], 0, 'none') for t in tks]
    rules = [('S', ['S', 'K']), ('S', ['K'])] + [('K', [t['name']]) for t in tks]
    return Grammar(name, ['S', 'K'], terms, 'S', rules, note=note, tkinds=tks)

def t_sets():
    return [
        g_lex('kwid', [ST('if'), RE('[a-z]+', 'id')], 'keyword listed before identifier: tie goes to the keyword, longer identifier wins'),
        g_lex('idkw', [RE('[a-z]+', 'id'), ST('if')], 'identifier listed first: the keyword can never win a tie'),
        g_lex('eqeq', [CH('='), ST('=='), CH('+'), ST('++')], 'operators that are prefixes of longer operators'),
        g_lex('kwx', [ST('if'), ST('ifx'), RE('[a-z][a-z0-9]*', 'id')], 'keyword prefix of keyword prefix of identifier'),
        g_lex('num', [RE('[0-9]+', 'num'), CH('.'), RE('[a-z]', 'letter')], 'numbers and single letters'),
        g_lex('abcd', [ST('ab'), ST('abcd'), CH('c')], 'longest match needs back-off: abc must lex as ab c'),
        g_lex('nlterm', [RE('[a\\x0a]+', 'anl'), CH('b')], 'a term whose lexeme may contain newlines'),
        g_lex('idext', [RE('[a-z]+', 'id'), ST('ab-')], 'a later-listed term that runs through an earlier term\'s loop state and then leaves its alphabet: merging into a self-looping state'),
        g_lex('hi', [RE('[\\x80-\\xff]+', 'hi'), CH('a'), RE('\\x00', 'nul')], 'bytes >= 0x80 and NUL as term characters'),
    ]

# units on which a recorded, unrepaired defect of /repo manifests (known_findings.json: D5, fixed-size stack capacity): they are run only by the checks that own the finding (C06, C12)
KNOWN_DEFECT_UNITS = {'nrun4'}
# units that only build with a dedicated harness variant (dflt: aggregate value type for functor-less multi-symbol rules, run by C02 in variant 'agg'): not part of the plain all-family selections
SPECIAL_VARIANT_UNITS = {'dflt'}
