#!/usr/bin/env python3
"""Harness emitters: C++ wrapper around the real parser for a Grammar, and the C harness (CBMC + native)."""
import lr1

ASSOC = {'none': 'associativity::no_assoc', 'ltor': 'associativity::ltor', 'rtol': 'associativity::rtol'}

def cxx_str(s): return '"' + s.replace('\\', '\\\\').replace('"', '\\"') + '"'

def grammar_cpp(g, lexer='tok', ctx=None, ns='g', limits=None, lexer_type=None, vt='unsigned'):
    """C++ definition of the grammar as a constexpr ctpg::parser named <ns>::p.
       lexer: 'tok' (custom token-level lexer over custom_terms)"""
    o = ['namespace %s {' % ns]
    o.append('constexpr nterm<%s> %s;' % (vt, ', '.join('N_%d(%s)' % (i, cxx_str(n)) for i, n in enumerate(g.nterms))))
    for i, (n, prec, assoc) in enumerate(g.terms):
        tk = g.tkinds[i] if g.tkinds else None
        if tk is None:
            o.append('constexpr custom_term T_%d(%s, [](std::string_view sv){ return hv::term_value_of(%d, sv); }, %d, %s);' % (i, cxx_str(n), i, prec, ASSOC[assoc]))
        elif tk['kind'] == 'char':
            o.append("constexpr char_term T_%d((char)%d, %d, %s);" % (i, tk['c'], prec, ASSOC[assoc]))
        elif tk['kind'] == 'str':
            o.append('constexpr string_term T_%d(%s, %d, %s);' % (i, cxx_str(tk['s']), prec, ASSOC[assoc]))
        elif tk['kind'] == 'regex':
            o.append('constexpr char P_%d[] = R"RX(%s)RX"; constexpr regex_term<P_%d> T_%d(%s, %d, %s);' % (i, tk['pattern'], i, i, cxx_str(n), prec, ASSOC[assoc]))
    def symref(x):
        if x == 'error': return 'error'
        if x in g.tnames: return 'T_%d' % g.tnames.index(x)
        return 'N_%d' % g.nterms.index(x)
    rs = []
    for ri, r in enumerate(g.rules):
        head = 'N_%d(%s)' % (g.nterms.index(r['lhs']), ', '.join(symref(x) for x in r['rhs']))
        if r['prec'] != 0: head += '[%d]' % r['prec']
        f = r['f']
        if f in ('hash', 'ctxhash'):
            ps = []; args = []
            for k, x in enumerate(r['rhs']):
                if x == 'error': ps.append('skip'); args.append('0u'); continue
                if x in g.tnames:
                    ti = g.tnames.index(x); tk = g.tkinds[ti] if g.tkinds else None
                    if tk is None: ps.append('const term_value<unsigned>& a%d' % k); args.append('a%d' % k)
                    elif tk['kind'] == 'char': ps.append('const term_value<char>& a%d' % k); args.append('hv::tv(%d, a%d)' % (ti, k))
                    else: ps.append('const term_value<std::string_view>& a%d' % k); args.append('hv::tv(%d, a%d)' % (ti, k))
                else: ps.append('%s a%d' % (vt, k)); args.append('a%d' % k)
            if f == 'hash':
                rs.append('%s >= [](%s){ return hv::%s(%s); }' % (head, ', '.join(ps), ('redv<%s>' % vt) if vt != 'unsigned' else 'red', ', '.join([str(ri)] + args)))
            else:
                if r['prec'] != 0 and vt == 'unsigned' and not getattr(g, 'ctxprec_prefix', False):
                    # precedence attached AFTER the contextual functor: (rule >>= f)[n]; the functor is callable with and without context and flags the latter
                    head0 = head[:head.rindex('[')]
                    rs.append('(%s >>= hv::ctxf<%d>{})[%d]' % (head0, ri, r['prec']))
                else:
                    rs.append('%s >>= [](%s){ hv::ctx_touch(c); return hv::%s(%s); }' % (head, ', '.join(['HV_CTX_PARAM c'] + ps), ('redv<%s>' % vt) if vt != 'unsigned' else 'red', ', '.join([str(ri)] + args)))
        elif f == 'default': rs.append(head)
        elif f in ('e1', 'e2', 'e3'): rs.append('%s >= _%s' % (head, f))
        else: raise Exception(f)
    lim = (', %s{}' % limits) if limits else ''
    o.append('constexpr parser p(N_%d, terms(%s), nterms(%s), rules(\n  %s\n), use_lexer<%s>{}%s);' % (
        g.nterms.index(g.root), ', '.join('T_%d' % i for i in range(g.nt)), ', '.join('N_%d' % i for i in range(len(g.nterms))), ',\n  '.join(rs), lexer_type or ('hv::tok_lexer<%d>' % g.nt), lim))
    if g.tkinds: o[-1] = o[-1].replace('), use_lexer<hv::tok_lexer<%d>>{}' % g.nt, ')')
    o.append('}')
    return '\n'.join(o)

def hash_error_note(): pass

def parse_wrapper_cpp(g, ns='g', variant='plain', ctxkind=0):
    """wrapper: h_run(in[LEN], opts, out[O_SIZE]).  Options are compile-time constants OPT_WS/OPT_NL/OPT_VERBOSE unless OPT_SYMBOLIC.
       variant 'plain' | 'dual' (second run with no stream and verbose off: C16) | 'ctx' (context_parse, C13) | 'anslex' (custom lexer with harness answers, C18)"""
    lexer_type = 'hv::ans_lexer' if variant == 'anslex' else None
    head = ('#include "hv.h"\n'
            'using namespace ctpg; using namespace ctpg::buffers; using namespace ctpg::ftors;\n'
            'hv::state hv::hv_S; const void* hv::hv_ctx_addr = nullptr; unsigned hv::hv_ctx_tag = 0; hv::lex_state hv::hv_L;\n')
    ctxp = {0: 'hv::ctx_t&', 1: 'const hv::ctx_t&', 2: 'hv::ctx_t', 3: 'hv::mo_ctx&&', 4: 'hv::ctx_t&'}[ctxkind]
    head += '#define HV_CTX_PARAM %s\n' % ctxp
    head += grammar_cpp(g, ns=ns, lexer_type=lexer_type, vt=('hv::trk' if variant == 'trk' else 'hv::trk' if variant == 'trkctx' else 'hv::agg' if variant == 'agg' else 'unsigned')) + '\n'
    setup = ('    char b[LEN + 1];\n'
             '    for (int i = 0; i < LEN; i++) b[i] = (char)in[i];\n'
             '    b[LEN] = 0;\n'
             '    hv::reset();\n'
             '#ifdef HASHLOG\n    hv::hrec s;\n#else\n    hv::rec s;\n#endif\n'
             '    s.names = %s::p.term_names; s.nnames = %d;\n'
             '    parse_options o;\n'
             '#ifdef OPT_SYMBOLIC\n'
             '    o.set_skip_whitespace((opts & 1u) != 0).set_skip_newline((opts & 2u) != 0).set_verbose((opts & 4u) != 0);\n'
             '#else\n'
             '    o.set_skip_whitespace(OPT_WS != 0).set_skip_newline(OPT_NL != 0).set_verbose(OPT_VERBOSE != 0);\n'
             '#endif\n') % (ns, g.term_count)
    fin = ('    out[O_OK] = r.has_value() ? 1u : 0u;\n'
           '    out[O_VALUE] = r.has_value() ? *r : 0u;\n'
           '    s.flush(out); hv::flush(out);\n')
    alt = ('        out[O_ALT_OK] = r0.has_value() ? 1u : 0u; out[O_ALT_VALUE] = r0.has_value() ? *r0 : 0u; out[O_ALT_NRED] = hv::hv_S.nred;\n'
           '        hv::reset();\n')
    sig = 'const uint8_t* in, uint32_t opts, uint32_t* out'
    if variant == 'agg':
        body = setup + '    auto r = %s::p.parse(o, cstring_buffer<LEN + 1>(b), s);\n' % ns + fin.replace('*r : 0u', 'r->v : 0u')
    elif variant == 'trk':
        body = setup + '    auto r = %s::p.parse(o, cstring_buffer<LEN + 1>(b), s);\n' % ns + fin.replace('*r : 0u', 'r->v : 0u') + '    if (r.has_value() && r->st != 1) out[O_FLAGS] |= 16u;\n    out[O_CTX] = hv::hv_S.moves;\n'
    elif variant == 'plain':
        body = setup + '    auto r = %s::p.parse(o, cstring_buffer<LEN + 1>(b), s);\n' % ns + fin
    elif variant == 'trkctx':
        body = setup + ('    hv::ctx_t cx; cx.tag = 5; hv::hv_ctx_tag = 5; hv::hv_ctx_addr = (const void*)&cx;\n'
                        '    auto r = %s::p.context_parse(cx, o, cstring_buffer<LEN + 1>(b), s);\n    out[O_CTX] = cx.counter;\n' % ns) + fin.replace('*r : 0u', 'r->v : 0u')
    elif variant == 'slice':
        body = setup + ('    hv::slice_buf<LEN> ub; for (int i = 0; i < LEN; i++) ub.data[i] = b[i];\n'
                        '    ub.data[LEN] = (char)(opts >> 8); ub.data[LEN + 1] = (char)(opts >> 16);     // what happens to lie behind the caller\'s text: solver-chosen, not NUL\n'
                        '    auto r = %s::p.parse(o, ub, s);\n' % ns) + fin
    elif variant == 'hist':
        body = setup + ('    {   // an earlier call on the same parser object with another, independently solver-chosen input (carried in the upper bits of opts; LEN <= 3)\n'
                        '        char b2[LEN + 1]; for (int i = 0; i < LEN; i++) b2[i] = (char)(opts >> (8 * (i + 1))); b2[LEN] = 0;\n'
                        '        utils::no_stream ns0;\n'
                        '        auto r0 = %s::p.parse(o, cstring_buffer<LEN + 1>(b2), ns0);\n' % ns) + alt + '    }\n' + '    auto r = %s::p.parse(o, cstring_buffer<LEN + 1>(b), s);\n' % ns + fin
    elif variant == 'dual':
        body = setup + ('    {   // first run: no error stream at all, verbose off\n'
                        '        utils::no_stream ns0; parse_options o0 = o; o0.set_verbose(false);\n'
                        '        auto r0 = %s::p.parse(o0, cstring_buffer<LEN + 1>(b), ns0);\n' % ns) + alt + '    }\n' + '    auto r = %s::p.parse(o, cstring_buffer<LEN + 1>(b), s);\n' % ns + fin
    elif variant == 'ctx':
        mk = {0: 'hv::ctx_t cx; cx.tag = tag;', 1: 'hv::ctx_t cx0; cx0.tag = tag; const hv::ctx_t& cx = cx0;', 2: 'hv::ctx_t cx; cx.tag = tag;', 3: 'hv::mo_ctx cx; cx.tag = tag;', 4: 'hv::ctx_t cx; cx.tag = tag;'}[ctxkind]
        passx = {0: 'cx', 1: 'cx', 2: 'hv::ctx_t(cx)', 3: 'std::move(cx)', 4: 'cx'}[ctxkind]
        body = setup + '    unsigned tag = opts >> 8;\n    ' + mk + '\n    hv::hv_ctx_tag = tag; hv::hv_ctx_addr = %s;\n' % ('nullptr' if ctxkind == 2 else '(const void*)&cx')
        if ctxkind == 4:
            body += ('    {   // the same input through parse(): a grammar that ignores the context must give the same result\n'
                     '        utils::no_stream ns0;\n'
                     '        auto r0 = %s::p.parse(o, cstring_buffer<LEN + 1>(b), ns0);\n' % ns) + alt + '    }\n'
        body += '    auto r = %s::p.context_parse(%s, o, cstring_buffer<LEN + 1>(b), s);\n    out[O_CTX] = cx.counter;\n' % (ns, passx) + fin
    elif variant == 'anslex':
        body = setup + ('    cstring_buffer<LEN + 1> buf(b);\n'
                        '    hv::hv_L = hv::lex_state{}; hv::hv_L.base = buf.begin().ptr;\n'
                        '    for (int i = 0; i < LEN && i < LEXMAX; i++) { hv::hv_L.idx[i] = ans_idx[i]; hv::hv_L.len[i] = ans_len[i]; }\n'
                        '    auto r = %s::p.parse(o, buf, s);\n'
                        '    out[O_LEXHASH] = hv::hv_L.hash; out[O_LEXCALLS] = hv::hv_L.calls; if (hv::hv_L.bad) out[O_FLAGS] |= 16u;\n') % ns + fin
        sig = 'const uint8_t* in, uint32_t opts, uint32_t* out, const uint16_t* ans_idx, const uint8_t* ans_len'
    return head + 'extern "C" __attribute__((noinline)) void h_run(%s)\n{\n%s}\n' % (sig, body)

TOK_LEX = '''static int ref_lex(const uint8_t* in, unsigned n, unsigned pos, unsigned* term, unsigned* len) {
  uint8_t c = in[pos];
  if (c >= 'a' && c < 'a' + REF_NT) { *term = c - 'a'; *len = 1; return 1; }
  return 0;
}
'''

ANS_LEX = """#define REF_LEX_SP 1
static uint32_t ref_lex_line, ref_lex_col;
static uint16_t ANS_IDX[LEN ? LEN : 1]; static uint8_t ANS_LEN[LEN ? LEN : 1];
static uint32_t ref_lexhash, ref_lexcalls;
static int ref_lex(const uint8_t* in, unsigned n, unsigned pos, unsigned* term, unsigned* len) {
  ref_lexcalls++; ref_lexhash = ((ref_lexhash << 5) | (ref_lexhash >> 27)) + pos + 0x9e3779b9u + (ref_lex_line << 8) + (ref_lex_col << 16);
  if (ANS_IDX[pos] == 0xffffu) return 0;
  *term = ANS_IDX[pos]; *len = ANS_LEN[pos]; return 1;
}
"""

def parse_harness_c(unit_c, tables, body, extra_decl='', variant='plain', lex_c=None):
    """common harness text. `body` = oracle calls (C statements using OUT and R)."""
    anslex = variant == 'anslex'
    d = {'unit_c': unit_c, 'tables': tables, 'lex': ANS_LEX if anslex else (lex_c or TOK_LEX), 'extra_decl': extra_decl, 'body': body,
         'xproto': ', const uint16_t* ans_idx, const uint8_t* ans_len' if anslex else '',
         'xargs': ', ANS_IDX, ANS_LEN' if anslex else '',
         'xnondet': ('  for (int i = 0; i < LEN; i++) { ANS_IDX[i] = nondet_ushort(); ANS_LEN[i] = nondet_uchar();\n'
                     '    /* documented contract: a term index of terms(...) or the default-constructed failure value; 1 <= len <= remaining input */\n'
                     '    __CPROVER_assume(ANS_IDX[i] < REF_NT || ANS_IDX[i] == 0xffffu); __CPROVER_assume(ANS_LEN[i] >= 1 && ANS_LEN[i] <= LEN - i); }\n') if anslex else '',
         'xparse': ('  if (argc > 3) { const char* p = argv[3]; for (int i = 0; i < LEN && *p; i++) { ANS_IDX[i] = (uint16_t)strtoul(p, (char**)&p, 0); if (*p == \',\') p++; } }\n'
                    '  if (argc > 4) { const char* p = argv[4]; for (int i = 0; i < LEN && *p; i++) { ANS_LEN[i] = (uint8_t)strtoul(p, (char**)&p, 0); if (*p == \',\') p++; } }\n') if anslex else ''}
    return """#ifdef USE_REAL
#include <stdint.h>
#include <string.h>
void h_run_guard(const uint8_t* in, uint32_t opts, uint32_t* out%(xproto)s);
#define RUN h_run_guard
int exc_pending = 0;
#else
#include "%(unit_c)s"
#define RUN g_h_run
#endif
#include "rt.h"
#ifdef WS_HEADER
#include WS_HEADER
#endif
%(tables)s
%(lex)s
#include "ref_lr.h"
%(extra_decl)s
uint8_t IN[LEN ? LEN : 1]; uint32_t OPTS; uint32_t OUT[O_SIZE];
static void oracle(void) {
  struct ref_out R;
  ref_parse(IN, LEN, OPTS & 1u, (OPTS >> 1) & 1u, (OPTS >> 2) & 1u, &R);
  ora_machinery(OUT, &R);
%(body)s
}
#ifdef __CPROVER__
uint8_t nondet_uchar(void); uint32_t nondet_uint(void); uint16_t nondet_ushort(void);
void harness(void) {
  for (int i = 0; i < LEN; i++) IN[i] = nondet_uchar();
  OPTS = (nondet_uint() & OPT_MASK) | OPT_FIXED;
%(xnondet)s#ifdef IN_ASSUME
  __CPROVER_assume(IN_ASSUME);
#endif
#ifdef KNOWN_EXCLUDE
  __CPROVER_assume(KNOWN_EXCLUDE);   /* inputs listed in known_findings.json; the complement is proved */
#endif
#ifdef KNOWN_ONLY
  __CPROVER_assume(KNOWN_ONLY);      /* confirmation query for one listed finding */
#endif
  RUN(IN, OPTS, OUT%(xargs)s);
  if (exc_pending) OUT[O_THROWN] = 1;
  oracle();
}
#else
#include <stdio.h>
#include <stdlib.h>
int main(int argc, char** argv) {
  /* argv[1] = hex input bytes (exactly LEN), argv[2] = opts, further arguments: harness specific */
  const char* h = argc > 1 ? argv[1] : "";
  for (int i = 0; i < LEN; i++) { unsigned v = 0; if (h[2*i] && h[2*i+1]) sscanf(h + 2*i, "%%2x", &v); IN[i] = (uint8_t)v; }
  OPTS = argc > 2 ? (uint32_t)strtoul(argv[2], 0, 0) : 0;
%(xparse)s  RUN(IN, OPTS, OUT%(xargs)s);
  if (exc_pending) OUT[O_THROWN] = 1;
  oracle();
  printf("OUT");
  for (int i = 0; i < O_SIZE; i++) printf(" %%u", OUT[i]);
  printf("\\nVERDICT %%s %%s\\n", check_failures ? "FAIL" : "OK", check_failures ? check_first : "");
  return 0;
}
#endif
""" % d

def native_shim_cpp(variant='plain'):
    x = ', const uint16_t* ans_idx, const uint8_t* ans_len' if variant == 'anslex' else ''
    xa = ', ans_idx, ans_len' if variant == 'anslex' else ''
    return """// native driver shim: catches exceptions escaping the wrapper (the translated C models them with exc_pending)
#include <cstdint>
#include <exception>
extern "C" void h_run(const uint8_t* in, uint32_t opts, uint32_t* out%s);
extern "C" int exc_pending;
extern "C" void h_run_guard(const uint8_t* in, uint32_t opts, uint32_t* out%s) {
  try { h_run(in, opts, out%s); } catch (...) { exc_pending = 1; }
}
""" % (x, x, xa)

NATIVE_SHIM_CPP = '''// native driver shim: catches exceptions escaping the wrapper (the translated C models them with exc_pending)
#include <cstdint>
#include <exception>
extern "C" void h_run(const uint8_t* in, uint32_t opts, uint32_t* out);
extern "C" int exc_pending;
extern "C" void h_run_guard(const uint8_t* in, uint32_t opts, uint32_t* out) {
  try { h_run(in, opts, out); } catch (...) { exc_pending = 1; }
}
'''

def constexpr_probe_cpp(g, inbytes, ws=0, nl=0, verbose=0):
    """a TU that parses the given bytes during constant evaluation (functors are trivial constexpr lambdas): used to confirm undefined behaviour
       found by the solver - a constant evaluator must reject an evaluation that meets UB ([expr.const])"""
    o = ['#include <ctpg/ctpg.hpp>', 'using namespace ctpg; using namespace ctpg::buffers; using namespace ctpg::ftors;', 'namespace g {']
    o.append('constexpr nterm<unsigned> %s;' % ', '.join('N_%d(%s)' % (i, cxx_str(n)) for i, n in enumerate(g.nterms)))
    for i, (n, prec, assoc) in enumerate(g.terms):
        tk = g.tkinds[i] if g.tkinds else None
        if tk is None: o.append('constexpr custom_term T_%d(%s, [](std::string_view sv){ return (unsigned)sv.size(); }, %d, %s);' % (i, cxx_str(n), prec, ASSOC[assoc]))
        elif tk['kind'] == 'char': o.append("constexpr char_term T_%d((char)%d, %d, %s);" % (i, tk['c'], prec, ASSOC[assoc]))
        elif tk['kind'] == 'str': o.append('constexpr string_term T_%d(%s, %d, %s);' % (i, cxx_str(tk['s']), prec, ASSOC[assoc]))
        else: o.append('constexpr char P_%d[] = R"RX(%s)RX"; constexpr regex_term<P_%d> T_%d(%s, %d, %s);' % (i, tk['pattern'], i, i, cxx_str(n), prec, ASSOC[assoc]))
    def symref(x):
        if x == 'error': return 'error'
        if x in g.tnames: return 'T_%d' % g.tnames.index(x)
        return 'N_%d' % g.nterms.index(x)
    rs = []
    for ri, r in enumerate(g.rules):
        head = 'N_%d(%s)' % (g.nterms.index(r['lhs']), ', '.join(symref(x) for x in r['rhs']))
        if r['prec'] != 0: head += '[%d]' % r['prec']
        rs.append('%s >= [](%s){ return %du; }' % (head, ', '.join('skip' for _ in r['rhs']), ri))
    lex = '' if g.tkinds else ', use_lexer<tl>{}'
    o.insert(3, 'struct tl { template<typename It, typename ES> constexpr auto match(match_options, source_point, It start, It, ES&) { unsigned char c = (unsigned char)*start; '
                'if (c >= \'a\' && c < \'a\' + %d) return recognized_term(size16_t(c - \'a\'), 1); return recognized_term{}; } };' % g.nt)
    o.append('constexpr parser p(N_%d, terms(%s), nterms(%s), rules(\n  %s\n)%s);' % (g.nterms.index(g.root), ', '.join('T_%d' % i for i in range(g.nt)),
             ', '.join('N_%d' % i for i in range(len(g.nterms))), ',\n  '.join(rs), lex))
    o.append('}')
    o.append('constexpr char in[] = {%s};' % ', '.join(['(char)%d' % b for b in inbytes] + ['(char)0']))
    o.append('constexpr utils::no_stream ns{};')
    if verbose:
        # a literal stream type that consumes what is streamed (C strings are read up to their NUL, as an ostream would): the verbose trace path is then part of the constant evaluation
        o.append('struct cs { unsigned n = 0; constexpr cs& operator<<(const char* s) { while (*s) { ++s; ++n; } return *this; } template<typename T> constexpr cs& operator<<(const T&) { ++n; return *this; } };')
        o.append('constexpr bool run() { cs s; auto r = g::p.parse(parse_options{}.set_skip_whitespace(%s).set_skip_newline(%s).set_verbose(true), cstring_buffer(in), s); return r.has_value(); }' % ('true' if ws else 'false', 'true' if nl else 'false'))
    else:
        o.append('constexpr bool run() { utils::no_stream s; auto r = g::p.parse(parse_options{}.set_skip_whitespace(%s).set_skip_newline(%s), cstring_buffer(in), s); return r.has_value(); }' % ('true' if ws else 'false', 'true' if nl else 'false'))
    o.append('constexpr bool R = run();')
    o.append('int main() { return R ? 0 : 1; }')
    return '\n'.join(o) + '\n'
