#!/usr/bin/env python3
"""Harness emitters: C++ wrapper around the real parser for a Grammar, and the C harness (CBMC + native)."""
import lr1

ASSOC = {'none': 'associativity::no_assoc', 'ltor': 'associativity::ltor', 'rtol': 'associativity::rtol'}

def cxx_str(s): return '"' + s.replace('\\', '\\\\').replace('"', '\\"') + '"'

def grammar_cpp(g, lexer='tok', ctx=None, ns='g', limits=None):
    """C++ definition of the grammar as a constexpr ctpg::parser named <ns>::p.
       lexer: 'tok' (custom token-level lexer over custom_terms)"""
    o = ['namespace %s {' % ns]
    o.append('constexpr nterm<unsigned> %s;' % ', '.join('N_%d(%s)' % (i, cxx_str(n)) for i, n in enumerate(g.nterms)))
    for i, (n, prec, assoc) in enumerate(g.terms):
        o.append('constexpr custom_term T_%d(%s, [](std::string_view sv){ return hv::term_value_of(%d, sv); }, %d, %s);' % (i, cxx_str(n), i, prec, ASSOC[assoc]))
    def symref(x):
        if x == 'error': return 'error'
        if x in g.tnames: return 'T_%d' % g.tnames.index(x)
        return 'N_%d' % g.nterms.index(x)
    rs = []
    for ri, r in enumerate(g.rules):
        head = 'N_%d(%s)' % (g.nterms.index(r['lhs']), ', '.join(symref(x) for x in r['rhs']))
        if r['prec'] != 0: head += '[%d]' % r['prec']
        f = r['f']
        if f in ('hash', 'ctxhash'):
            ps = []; args = []
            for k, x in enumerate(r['rhs']):
                if x == 'error': ps.append('skip'); args.append('0u'); continue
                if x in g.tnames: ps.append('const term_value<unsigned>& a%d' % k)
                else: ps.append('unsigned a%d' % k)
                args.append('a%d' % k)
            if f == 'hash':
                rs.append('%s >= [](%s){ return hv::red(%s); }' % (head, ', '.join(ps), ', '.join([str(ri)] + args)))
            else:
                rs.append('%s >>= [](%s){ hv::ctx_touch(c); return hv::red(%s); }' % (head, ', '.join(['HV_CTX_PARAM c'] + ps), ', '.join([str(ri)] + args)))
        elif f == 'default': rs.append(head)
        elif f in ('e1', 'e2', 'e3'): rs.append('%s >= _%s' % (head, f))
        else: raise Exception(f)
    lim = (', %s{}' % limits) if limits else ''
    o.append('constexpr parser p(N_%d, terms(%s), nterms(%s), rules(\n  %s\n), use_lexer<hv::tok_lexer<%d>>{}%s);' % (
        g.nterms.index(g.root), ', '.join('T_%d' % i for i in range(g.nt)), ', '.join('N_%d' % i for i in range(len(g.nterms))), ',\n  '.join(rs), g.nt, lim))
    o.append('}')
    return '\n'.join(o)

def hash_error_note(): pass

def parse_wrapper_cpp(g, ns='g'):
    """wrapper: h_run(in[LEN], opts, out[O_SIZE]);  opts bit0 skip_whitespace, bit1 skip_newline, bit2 verbose"""
    return '''#include "hv.h"
using namespace ctpg; using namespace ctpg::buffers; using namespace ctpg::ftors;
hv::state hv::hv_S;
%s
extern "C" __attribute__((noinline)) void h_run(const uint8_t* in, uint32_t opts, uint32_t* out)
{
    char b[LEN + 1];
    for (int i = 0; i < LEN; i++) b[i] = (char)in[i];
    b[LEN] = 0;
    hv::reset();
#ifdef HASHLOG
    hv::hrec s;
#else
    hv::rec s;
#endif
    s.names = %s::p.term_names; s.nnames = %d;
    parse_options o;
#ifdef OPT_SYMBOLIC
    o.set_skip_whitespace((opts & 1u) != 0).set_skip_newline((opts & 2u) != 0).set_verbose((opts & 4u) != 0);
#else
    o.set_skip_whitespace(OPT_WS != 0).set_skip_newline(OPT_NL != 0).set_verbose(OPT_VERBOSE != 0);
#endif
    auto r = %s::p.parse(o, cstring_buffer<LEN + 1>(b), s);
    out[O_OK] = r.has_value() ? 1u : 0u;
    out[O_VALUE] = r.has_value() ? *r : 0u;
    s.flush(out); hv::flush(out);
}
''' % (grammar_cpp(g, ns=ns), ns, g.term_count, ns)

TOK_LEX = '''static int ref_lex(const uint8_t* in, unsigned n, unsigned pos, unsigned* term, unsigned* len) {
  uint8_t c = in[pos];
  if (c >= 'a' && c < 'a' + REF_NT) { *term = c - 'a'; *len = 1; return 1; }
  return 0;
}
'''

def parse_harness_c(unit_c, tables, body, extra_decl=''):
    """common harness text. `body` = oracle calls (C statements using OUT and R)."""
    return '''#ifdef USE_REAL
#include <stdint.h>
#include <string.h>
void h_run_guard(const uint8_t* in, uint32_t opts, uint32_t* out);
#define RUN h_run_guard
int exc_pending = 0;
#else
#include "%s"
#define RUN g_h_run
#endif
#include "rt.h"
%s
%s
#include "ref_lr.h"
%s
uint8_t IN[LEN ? LEN : 1]; uint32_t OPTS; uint32_t OUT[O_SIZE];
static void oracle(void) {
  struct ref_out R;
  ref_parse(IN, LEN, OPTS & 1u, (OPTS >> 1) & 1u, (OPTS >> 2) & 1u, &R);
  ora_machinery(OUT, &R);
%s
}
#ifdef __CPROVER__
uint8_t nondet_uchar(void); uint32_t nondet_uint(void);
void harness(void) {
  for (int i = 0; i < LEN; i++) IN[i] = nondet_uchar();
  OPTS = (nondet_uint() & OPT_MASK) | OPT_FIXED;
#ifdef IN_ASSUME
  __CPROVER_assume(IN_ASSUME);
#endif
#ifdef KNOWN_EXCLUDE
  __CPROVER_assume(KNOWN_EXCLUDE);   /* inputs listed in known_findings.json; the complement is proved */
#endif
#ifdef KNOWN_ONLY
  __CPROVER_assume(KNOWN_ONLY);      /* confirmation query for one listed finding */
#endif
  RUN(IN, OPTS, OUT);
  if (exc_pending) OUT[O_THROWN] = 1;
  oracle();
}
#else
#include <stdio.h>
#include <stdlib.h>
int main(int argc, char** argv) {
  /* argv[1] = hex input bytes (exactly LEN), argv[2] = opts */
  const char* h = argc > 1 ? argv[1] : "";
  for (int i = 0; i < LEN; i++) { unsigned v = 0; if (h[2*i] && h[2*i+1]) sscanf(h + 2*i, "%%2x", &v); IN[i] = (uint8_t)v; }
  OPTS = argc > 2 ? (uint32_t)strtoul(argv[2], 0, 0) : 0;
  RUN(IN, OPTS, OUT);
  if (exc_pending) OUT[O_THROWN] = 1;
  oracle();
  printf("OUT");
  for (int i = 0; i < O_SIZE; i++) printf(" %%u", OUT[i]);
  printf("\\nVERDICT %%s %%s\\n", check_failures ? "FAIL" : "OK", check_failures ? check_first : "");
  return 0;
}
#endif
''' % (unit_c, tables, TOK_LEX, extra_decl, body)

NATIVE_SHIM_CPP = '''// native driver shim: catches exceptions escaping the wrapper (the translated C models them with exc_pending)
#include <cstdint>
#include <exception>
extern "C" void h_run(const uint8_t* in, uint32_t opts, uint32_t* out);
extern "C" int exc_pending;
extern "C" void h_run_guard(const uint8_t* in, uint32_t opts, uint32_t* out) {
  try { h_run(in, opts, out); } catch (...) { exc_pending = 1; }
}
'''
