#!/usr/bin/env python3
"""Reference lexer for a term set: longest match over all terms, the term listed first wins ties (README / property C04).
Combined DFA = subset construction over the union of the per-term NFAs (reference regex semantics from rx.py)."""
import rx

def term_ast(t):
    k = t['kind']
    if k == 'char': return ('set', frozenset([t['c']]))
    if k == 'str':
        a = None
        for ch in t['s'].encode('latin-1'):
            n = ('set', frozenset([ch])); a = n if a is None else ('cat', a, n)
        return a
    if k == 'regex': return rx.parse(t['pattern'])
    raise Exception(k)

class LexDFA:
    def __init__(self, terms):
        n = rx.NFA(); starts = []; finals = {}
        for i, t in enumerate(terms):
            s, f = n.build(term_ast(t)); starts.append(s); finals[f] = i
        start = n.closure(starts); idx = {start: 0}; states = [start]; trans = []
        i = 0
        while i < len(states):
            S = states[i]; moves = {}
            for x in S:
                for (cs, y) in n.tr[x]:
                    for c in cs: moves.setdefault(c, set()).add(y)
            row = []; cache = {}
            for c in range(256):
                tgt = frozenset(moves.get(c, ()))
                if tgt not in cache: cache[tgt] = n.closure(tgt)
                T = cache[tgt]
                if T not in idx: idx[T] = len(states); states.append(T)
                row.append(idx[T])
            trans.append(row); i += 1
        self.n = len(states); self.trans = trans
        self.acc = [min([finals[x] for x in S if x in finals] or [255]) for S in states]
        self.dead = [len(S) == 0 for S in states]
    def minimal_tables(self):
        """(trans, label, dead) of the minimal complete DFA with accepting states labelled by term index (255 = none); state 0 = start"""
        n = self.n; part = list(self.acc)
        while True:
            sig = {}; newp = [0] * n
            for s in range(n):
                k = (part[s], tuple(part[t] for t in self.trans[s]))
                if k not in sig: sig[k] = len(sig)
                newp[s] = sig[k]
            if len(sig) == len(set(part)): part = newp; break
            part = newp
        rep = {}
        for s in range(n): rep.setdefault(part[s], s)
        order = {part[0]: 0}; q = [part[0]]; qi = 0
        while qi < len(q):
            b = q[qi]; qi += 1
            for c in range(256):
                t = part[self.trans[rep[b]][c]]
                if t not in order: order[t] = len(order); q.append(t)
        m = len(order); tr = [None] * m; lab = [255] * m
        for b, i in order.items():
            tr[i] = [order[part[t]] for t in self.trans[rep[b]]]; lab[i] = self.acc[rep[b]]
        dead = []
        for i in range(m):
            seen = {i}; w = [i]; live = False
            while w:
                x = w.pop()
                if lab[x] != 255: live = True; break
                for t in set(tr[x]):
                    if t not in seen: seen.add(t); w.append(t)
            dead.append(not live)
        return tr, lab, dead
    def lex(self, s, pos):
        st = 0; best = None
        for i in range(pos, len(s)):
            st = self.trans[st][s[i]]
            if self.dead[st]: break
            if self.acc[st] != 255: best = (self.acc[st], i + 1 - pos)
        return best
    def emit_c(self):
        cols = {}
        for c in range(256): cols.setdefault(tuple(self.trans[s][c] for s in range(self.n)), []).append(c)
        cls = list(cols.values()); cmap = [0] * 256
        for i, cs in enumerate(cls):
            for c in cs: cmap[c] = i
        o = ['#define RLX_N %d' % self.n, '#define RLX_NC %d' % len(cls)]
        o.append('static const uint8_t RLX_cls[256] = {%s};' % ','.join(map(str, cmap)))
        o.append('static const uint8_t RLX_acc[%d] = {%s};' % (self.n, ','.join(map(str, self.acc))))
        o.append('static const uint8_t RLX_dead[%d] = {%s};' % (self.n, ','.join('1' if d else '0' for d in self.dead)))
        o.append('static const uint8_t RLX_tr[%d][%d] = {%s};' % (self.n, len(cls), ','.join('{%s}' % ','.join(str(self.trans[s][cs[0]]) for cs in cls) for s in range(self.n))))
        o.append('''static int ref_lex(const uint8_t* in, unsigned n, unsigned pos, unsigned* term, unsigned* len) {
  unsigned st = 0; int found = 0;
  for (unsigned i = 0; i < LEN; i++) {
    if (pos + i >= n) break;
    st = RLX_tr[st][RLX_cls[in[pos + i]]];
    if (RLX_dead[st]) break;
    if (RLX_acc[st] != 255) { *term = RLX_acc[st]; *len = i + 1; found = 1; }
  }
  return found;
}''')
        return '\n'.join(o) + '\n'
