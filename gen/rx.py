#!/usr/bin/env python3
"""Reference semantics of the documented regex syntax: parser -> NFA -> minimal DFA over all 256 byte values,
pattern family generator, C table emission.  Written from the README table, independent of the library code."""
import itertools, random

class RxError(Exception): pass

def is_printable(c): return 0x20 <= c <= 0x7e
HEX = b'0123456789abcdefABCDEF'
SPECIAL = b'*+?|(){}'

# ---------------------------------------------------------------- parser (bytes -> AST)
# AST: ('set', frozenset(bytes)) | ('cat', a, b) | ('alt', a, b) | ('star', a) | ('plus', a) | ('opt', a) | ('rep', a, n)
class Parser:
    def __init__(self, pat):
        self.p = bytes(pat) if not isinstance(pat, str) else pat.encode('latin-1'); self.i = 0
    def peek(self): return self.p[self.i] if self.i < len(self.p) else None
    def parse(self):
        if not self.p: raise RxError('empty pattern')
        e = self.alt()
        if self.i != len(self.p): raise RxError('trailing input at %d' % self.i)
        return e
    def alt(self):
        a = self.cat()
        if self.peek() == ord('|'):
            self.i += 1
            b = self.alt()
            return ('alt', a, b)
        return a
    def cat(self):
        a = self.quant()
        while self.peek() is not None and self.peek() not in b'|)':
            b = self.quant(); a = ('cat', a, b)
        return a
    def quant(self):
        a = self.primary()
        c = self.peek()
        if c == ord('*'): self.i += 1; return ('star', a)
        if c == ord('+'): self.i += 1; return ('plus', a)
        if c == ord('?'): self.i += 1; return ('opt', a)
        if c == ord('{'):
            self.i += 1; n = 0; nd = 0
            while self.peek() is not None and ord('0') <= self.peek() <= ord('9'): n = n * 10 + self.peek() - 48; self.i += 1; nd += 1
            if nd == 0 or self.peek() != ord('}'): raise RxError('bad repetition')
            self.i += 1
            return ('rep', a, n)
        return a
    def escaped(self):
        """at a backslash: returns byte value"""
        self.i += 1
        c = self.peek()
        if c is None: raise RxError('dangling backslash')
        if c == ord('x'):
            self.i += 1; v = 0; nd = 0
            while nd < 2 and self.peek() is not None and self.peek() in HEX: v = v * 16 + int(chr(self.peek()), 16); self.i += 1; nd += 1
            return v
        if not is_printable(c): raise RxError('escape of non-printable')
        self.i += 1; return c
    def primary(self):
        c = self.peek()
        if c is None: raise RxError('unexpected end')
        if c == ord('('):
            self.i += 1; e = self.alt()
            if self.peek() != ord(')'): raise RxError('unbalanced group')
            self.i += 1; return e
        if c in SPECIAL: raise RxError('unexpected %r' % chr(c))
        if c == ord('\\'): return ('set', frozenset([self.escaped()]))
        if c == ord('['):
            self.i += 1; inv = False
            if self.peek() == ord('^'): inv = True; self.i += 1
            s = set()
            if self.peek() is None: raise RxError('unterminated set')
            while self.peek() != ord(']'):
                if self.peek() is None: raise RxError('unterminated set')
                a = self.set_char()
                if self.peek() == ord('-'):
                    self.i += 1
                    if self.peek() is None or self.peek() == ord(']'): raise RxError('dangling range')
                    b = self.set_char()
                    s |= set(range(a, b + 1))
                else: s.add(a)
            self.i += 1
            return ('set', frozenset(set(range(256)) - s if inv else s))
        if c == ord('.'): self.i += 1; return ('set', frozenset(range(256)))
        if not is_printable(c): raise RxError('raw non-printable byte')
        self.i += 1; return ('set', frozenset([c]))
    def set_char(self):
        c = self.peek()
        if c == ord('\\'): return self.escaped()
        if c is None or not is_printable(c): raise RxError('bad set item')
        self.i += 1; return c

def parse(pat): return Parser(pat).parse()
def valid(pat):
    try: parse(pat); return True
    except RxError: return False

# ---------------------------------------------------------------- AST -> NFA (Thompson) -> DFA -> minimal DFA
class NFA:
    def __init__(self): self.eps = []; self.tr = []
    def new(self): self.eps.append(set()); self.tr.append([]); return len(self.eps) - 1
    def build(self, e):
        k = e[0]
        if k == 'set':
            a = self.new(); b = self.new(); self.tr[a].append((e[1], b)); return a, b
        if k == 'cat':
            a1, b1 = self.build(e[1]); a2, b2 = self.build(e[2]); self.eps[b1].add(a2); return a1, b2
        if k == 'alt':
            a = self.new(); b = self.new(); a1, b1 = self.build(e[1]); a2, b2 = self.build(e[2])
            self.eps[a] |= {a1, a2}; self.eps[b1].add(b); self.eps[b2].add(b); return a, b
        if k in ('star', 'plus', 'opt'):
            a = self.new(); b = self.new(); a1, b1 = self.build(e[1])
            self.eps[a].add(a1); self.eps[b1].add(b)
            if k in ('star', 'opt'): self.eps[a].add(b)
            if k in ('star', 'plus'): self.eps[b1].add(a1)
            return a, b
        if k == 'rep':
            a = self.new(); cur = a
            for _ in range(e[2]):
                a1, b1 = self.build(e[1]); self.eps[cur].add(a1); cur = b1
            return a, cur
        raise Exception(k)
    def closure(self, S):
        S = set(S); w = list(S)
        while w:
            x = w.pop()
            for y in self.eps[x]:
                if y not in S: S.add(y); w.append(y)
        return frozenset(S)

class DFA:
    """complete DFA over bytes; state 0 = start; dead state included; minimal"""
    def __init__(self, ast):
        n = NFA(); s, f = n.build(ast)
        start = n.closure([s]); idx = {start: 0}; states = [start]; trans = []
        i = 0
        while i < len(states):
            S = states[i]; row = [None] * 256
            moves = {}
            for x in S:
                for (cs, y) in n.tr[x]:
                    for c in cs: moves.setdefault(c, set()).add(y)
            cache = {}
            for c in range(256):
                tgt = frozenset(moves.get(c, ()))
                if tgt not in cache: cache[tgt] = n.closure(tgt)
                T = cache[tgt]
                if T not in idx: idx[T] = len(states); states.append(T)
                row[c] = idx[T]
            trans.append(row); i += 1
        acc = [f in S for S in states]
        self._minimise(trans, acc)
    def _minimise(self, trans, acc):
        n = len(trans); part = [1 if a else 0 for a in acc]
        while True:
            sig = {}; newp = [0] * n
            for s in range(n):
                k = (part[s], tuple(part[t] for t in trans[s]))
                if k not in sig: sig[k] = len(sig)
                newp[s] = sig[k]
            if len(sig) == len(set(part)): part = newp; break
            part = newp
        # renumber with start = 0
        order = {}; q = [part[0]]; order[part[0]] = 0
        rep = {}
        for s in range(n): rep.setdefault(part[s], s)
        qi = 0
        while qi < len(q):
            b = q[qi]; qi += 1
            for c in range(256):
                t = part[trans[rep[b]][c]]
                if t not in order: order[t] = len(order); q.append(t)
        self.n = len(order); self.trans = [None] * self.n; self.acc = [False] * self.n
        for b, i in order.items():
            self.trans[i] = [order[part[t]] for t in trans[rep[b]]]; self.acc[i] = acc[rep[b]]
        # dead states
        self.dead = [False] * self.n
        for i in range(self.n):
            seen = {i}; w = [i]; live = False
            while w:
                x = w.pop()
                if self.acc[x]: live = True; break
                for t in set(self.trans[x]):
                    if t not in seen: seen.add(t); w.append(t)
            self.dead[i] = not live
    def longest(self, s):
        """length of the longest prefix of s in the language, or -1"""
        st = 0; best = 0 if self.acc[0] else -1
        for i, c in enumerate(s):
            st = self.trans[st][c]
            if self.dead[st]: break
            if self.acc[st]: best = i + 1
        return best
    def accepts(self, s): return self.longest(s) == len(s) and self._full(s)
    def _full(self, s):
        st = 0
        for c in s: st = self.trans[st][c]
        return self.acc[st]
    def classes(self):
        """partition of the 256 byte values into classes with identical columns"""
        cols = {}
        for c in range(256): cols.setdefault(tuple(self.trans[s][c] for s in range(self.n)), []).append(c)
        return list(cols.values())

def from_table(trans, acc):
    """DFA object from an explicit table (rows of 256 targets, -1 = no transition) -- used for the *real* automaton when authoring findings"""
    n = len(trans); dead = n
    full = [[(t if t >= 0 else dead) for t in row] for row in trans] + [[dead] * 256]
    d = DFA.__new__(DFA); d._minimise(full, list(acc) + [False]); return d

def equivalent(d1, d2):
    """shortest string distinguishing two complete DFAs or None"""
    seen = {(0, 0): None}; q = [(0, 0)]; qi = 0
    while qi < len(q):
        a, b = q[qi]; qi += 1
        if d1.acc[a] != d2.acc[b]:
            s = []; k = (a, b)
            while seen[k] is not None: pk, c = seen[k]; s.append(c); k = pk
            return bytes(reversed(s))
        for c in range(256):
            k = (d1.trans[a][c], d2.trans[b][c])
            if k not in seen: seen[k] = ((a, b), c); q.append(k)
    return None

def emit_dfa_c(d, name):
    o = ['#define %s_N %d' % (name, d.n)]
    o.append('static const uint8_t %s_acc[%d] = {%s};' % (name, d.n, ','.join('1' if a else '0' for a in d.acc)))
    o.append('static const uint8_t %s_dead[%d] = {%s};' % (name, d.n, ','.join('1' if a else '0' for a in d.dead)))
    o.append('static const uint8_t %s_tr[%d][256] = {%s};' % (name, d.n, ','.join('{%s}' % ','.join(map(str, r)) for r in d.trans)))
    return '\n'.join(o) + '\n'

# ---------------------------------------------------------------- pattern families
LEAVES = ['a', 'b', '.', '[ab]', '[^a]', '[a-c]']
UNARY = ['*', '+', '?', '{0}', '{1}', '{2}', '{3}']

def render(t):
    """t: ('L', text) | ('U', op, t) | ('C', a, b) | ('A', a, b) -> (pattern text, precedence level 0 alt,1 cat,2 postfix,3 atom)"""
    k = t[0]
    if k == 'L': return t[1], 3
    if k == 'U':
        s, p = render(t[2])
        if p < 3: s = '(' + s + ')'
        return s + t[1], 2
    if k == 'C':
        a, pa = render(t[1]); b, pb = render(t[2])
        if pa < 1: a = '(' + a + ')'
        if pb <= 1 and t[2][0] in ('A',): b = '(' + b + ')'
        if pb < 1: b = '(' + b + ')' if not b.startswith('(') else b
        return a + b, 1
    if k == 'A':
        a, pa = render(t[1]); b, pb = render(t[2])
        return a + '|' + b, 0

def shapes(nleaves, max_unary):
    """all ASTs with exactly nleaves leaves (unlabelled) and at most max_unary unary nodes, no unary directly on unary"""
    def gen(n, u, top_unary_ok=True):
        if n == 1:
            yield ('L',), 0
            if u >= 1 and top_unary_ok: yield ('U', ('L',)), 1
            return
        for k in range(1, n):
            for (l, ul) in gen(k, u):
                for (r, ur) in gen(n - k, u - ul):
                    for op in ('C', 'A'):
                        yield (op, l, r), ul + ur
                        if u - ul - ur >= 1 and top_unary_ok: yield ('U', (op, l, r)), ul + ur + 1
    return [t for t, _ in gen(nleaves, max_unary)]

def label(shape, leaves, unaries):
    """assign leaf texts and unary ops in order"""
    li = iter(leaves); ui = iter(unaries)
    def go(t):
        if t[0] == 'L': return ('L', next(li))
        if t[0] == 'U': op = next(ui); return ('U', op, go(t[1]))
        return (t[0], go(t[1]), go(t[2]))
    return go(shape)

def count_nodes(t, kind):
    if t[0] == 'L': return 1 if kind == 'L' else 0
    if t[0] == 'U': return (1 if kind == 'U' else 0) + count_nodes(t[1], kind)
    return count_nodes(t[1], kind) + count_nodes(t[2], kind)

def p_shape(max_leaves=3, max_unary=2, leaves=LEAVES, unary=UNARY):
    """systematic pattern family (DESIGN section 4, P-shape)"""
    out = []; seen = set()
    for n in range(1, max_leaves + 1):
        for sh in shapes(n, max_unary):
            nl = count_nodes(sh, 'L'); nu = count_nodes(sh, 'U')
            for ls in itertools.product(leaves, repeat=nl):
                # up to leaf renaming: the first plain-letter leaf used must be 'a'
                letters = [x for x in ls if x in ('a', 'b')]
                if letters and letters[0] != 'a': continue
                for us in itertools.product(unary, repeat=nu):
                    p, _ = render(label(sh, ls, us))
                    if p not in seen: seen.add(p); out.append(p)
    return out

TEST_PATTERNS = ['a', 'abc', 'a|b', 'a*', 'a+', 'a?', 'a{3}', '(ab)*', '(a|b)*', '[abc]', '[a-c]', '[^abc]', '[^a-c]', '[_a-zA-Z][_a-zA-Z0-9]*', '[1-9][0-9]*', '[0-9]+',
                 '\\|', '\\x20', '\\x2', '\\x', '.', 'a.c', '[a\\]]', '[\\x41-\\x43]', '[a\\-z]', 'ab|cd', '0|[1-9][0-9]*',
                 '[0-9]+\\.[0-9]+', '(a|b)c', 'a(b|c)*d', '(ab|a)c', 'x{2}y{0}z', '[^\\x00-\\x1f]+',
                 'ab|abc', 'abc|ab', 'ab|abcd|abc', '(a|ab|bc)+', '(ab?|bc)+', 'a(bc)?|ab', 'if|ifx|[a-z]+', '(ab|abc)d', 'abc?|ab+', 'a+|(ab?)+', '(ab|c?){3}', '[0-9]+(\\.[0-9]+)?',
                 '[\\x70-\\x90]', '[a-\\xff]+', '[\\x80-\\xff]x', '[^\\x7e-\\x81]', '[\\x7f-\\x80]*a']   # ranges that cross or touch the 0x7f / 0x80 (signed char) boundary
D6_PATTERNS = ['a*a', '(ab)*a', 'a?a', '[a-c]*c', 'a*b*a', '(a|b)*abb', 'a+a', '(a|ab)(c|bcd)']

def pool_parts():
    base = [p for p in TEST_PATTERNS if valid(p)] + D6_PATTERNS
    one = p_shape(1, 2)
    s1 = set(one)
    two = [p for p in p_shape(2, 1, leaves=['a', 'b', '[ab]', '[^a]']) if p not in s1]
    s2 = set(two)
    three = [p for p in p_shape(3, 2, leaves=['a', 'b'], unary=['*', '+', '?']) if p not in s1 and p not in s2]
    return base, one, two, three

def pool():
    """every pattern any tier / seed can select (known findings are authored over this whole pool)"""
    seen = set(); out = []
    for part in pool_parts():
        for p in part:
            if p not in seen and valid(p): seen.add(p); out.append(p)
    return out

def family(tier, seed):
    """quick: test-suite patterns + known-defect shapes + a stride/seeded sample; thorough: every pattern with one leaf (all leaf kinds, <=2 unary),
       every pattern with two leaves over {a,b,[ab],[^a]} and <=1 unary (all 7 operators), and a seeded sample of 3-leaf patterns over {a,b} with <=2 of * + ?"""
    base, one, two, three = pool_parts()
    rnd = random.Random(seed)
    if tier == 'quick':
        out = base + one[::3][:12] + rnd.sample(two, 14) + rnd.sample(three, 10)
    else:
        out = base + one + two + rnd.sample(three, min(len(three), 360))
    seen = set(); res = []
    for p in out:
        if p not in seen and valid(p): seen.add(p); res.append(p)
    return res
