#!/usr/bin/env python3
"""Reference canonical LR(1) construction (textbook), precedence resolution as documented in the README,
an Earley recogniser to validate the reference, and C table emission."""
import itertools, collections

EOF = '<eof>'; ERR = '<error>'

class Grammar:
    """terms: list of (name, prec, assoc) ; assoc in 'none','ltor','rtol'
       rules: list of dict(lhs=str, rhs=[str], prec=int (explicit [n], 0 = none), f=str functor kind)
       the symbol name 'error' in a right side denotes the error recovery token"""
    def __init__(self, name, nterms, terms, root, rules, note='', tkinds=None):
        self.name = name; self.nterms = list(nterms); self.root = root; self.note = note
        self.tkinds = tkinds   # None: token level (custom terms); else per term dict(kind='char'|'str'|'regex', ...) lexed by the generated lexer
        self.terms = [t if isinstance(t, tuple) else (t, 0, 'none') for t in terms]
        self.rules = []
        for r in rules:
            if isinstance(r, tuple): r = dict(lhs=r[0], rhs=list(r[1]), **(r[2] if len(r) > 2 else {}))
            r.setdefault('prec', 0); r.setdefault('f', 'hash'); r['rhs'] = ['error' if x == ERR else x for x in r['rhs']]
            self.rules.append(r)
        self.tnames = [t[0] for t in self.terms]
        self.nt = len(self.terms)              # user terms; eof = nt, error = nt+1
        self.term_count = self.nt + 2
        self.nnt = len(self.nterms) + 1        # + fake root
        assert root in self.nterms
        for r in self.rules:
            assert r['lhs'] in self.nterms, r
            for x in r['rhs']: assert x in self.nterms or x in self.tnames or x == 'error', (x, r)
        self.uses_error = any('error' in r['rhs'] for r in self.rules)
        self.max_rhs = max([1] + [len(r['rhs']) for r in self.rules])
        self.empty_rules = sum(1 for r in self.rules if not r['rhs'])

    # symbols are ('t', idx) / ('n', idx)
    def sym(self, x):
        if x == 'error': return ('t', self.nt + 1)
        if x in self.tnames: return ('t', self.tnames.index(x))
        return ('n', self.nterms.index(x))
    def term_prec(self, t): return self.terms[t][1] if t < self.nt else 0
    def term_assoc(self, t): return self.terms[t][2] if t < self.nt else 'none'
    def rule_last_term(self, r):
        for x in reversed(self.rules[r]['rhs']):
            s = self.sym(x)
            if s[0] == 't': return s[1]
        return None
    def rule_prec(self, r):
        if r == len(self.rules): return 0
        if self.rules[r]['prec'] != 0: return self.rules[r]['prec']
        lt = self.rule_last_term(r)
        return self.term_prec(lt) if lt is not None else 0
    def rule_assoc(self, r):
        if r == len(self.rules): return 'none'
        lt = self.rule_last_term(r)
        return self.term_assoc(lt) if lt is not None else 'none'

class LR1:
    def __init__(self, g):
        self.g = g
        R = [(g.sym(r['lhs'])[1], [g.sym(x) for x in r['rhs']]) for r in g.rules]
        R.append((len(g.nterms), [('n', g.nterms.index(g.root))]))      # augmented rule, index len(rules)
        self.R = R; self.aug = len(R) - 1
        self.by_lhs = collections.defaultdict(list)
        for i, (l, _) in enumerate(R): self.by_lhs[l].append(i)
        self._first()
        self._build()

    def _first(self):
        g = self.g; n = g.nnt
        self.nullable = [False] * n; self.first = [set() for _ in range(n)]
        ch = True
        while ch:
            ch = False
            for l, rhs in self.R:
                allnull = True
                for s in rhs:
                    if s[0] == 't':
                        if s[1] not in self.first[l]: self.first[l].add(s[1]); ch = True
                        allnull = False; break
                    add = self.first[s[1]] - self.first[l]
                    if add: self.first[l] |= add; ch = True
                    if not self.nullable[s[1]]: allnull = False; break
                if allnull and not self.nullable[l]: self.nullable[l] = True; ch = True
    def first_seq(self, seq, la):
        out = set()
        for s in seq:
            if s[0] == 't': out.add(s[1]); return out
            out |= self.first[s[1]]
            if not self.nullable[s[1]]: return out
        out.add(la); return out

    def closure(self, items):
        items = set(items); work = list(items)
        while work:
            (r, d, la) = work.pop()
            rhs = self.R[r][1]
            if d < len(rhs) and rhs[d][0] == 'n':
                for t in self.first_seq(rhs[d+1:], la):
                    for r2 in self.by_lhs[rhs[d][1]]:
                        it = (r2, 0, t)
                        if it not in items: items.add(it); work.append(it)
        return frozenset(items)

    def _build(self):
        g = self.g
        start = self.closure([(self.aug, 0, g.nt)])
        self.states = [start]; idx = {start: 0}; self.kernels = [frozenset([(self.aug, 0, g.nt)])]
        self.trans = []   # per state: dict sym -> state
        i = 0
        syms = [('n', k) for k in range(g.nnt)] + [('t', k) for k in range(g.term_count)]
        while i < len(self.states):
            st = self.states[i]; tr = {}
            for s in syms:
                ker = frozenset((r, d + 1, la) for (r, d, la) in st if d < len(self.R[r][1]) and self.R[r][1][d] == s)
                if not ker: continue
                c = self.closure(ker)
                if c not in idx: idx[c] = len(self.states); self.states.append(c); self.kernels.append(ker)
                tr[s] = idx[c]
            self.trans.append(tr); i += 1
        # actions
        self.action = []; self.goto = []; self.conflicts = []   # conflicts: (state, term, kind, detail)
        for i, st in enumerate(self.states):
            row = {};
            for t in range(g.term_count):
                shift = self.trans[i].get(('t', t))
                reds = sorted(set(r for (r, d, la) in st if d == len(self.R[r][1]) and la == t))
                if self.aug in reds:
                    row[t] = ('acc',); continue
                if len(reds) >= 2:
                    row[t] = ('rr', tuple(reds)); self.conflicts.append((i, t, 'rr', tuple(reds))); continue
                if shift is not None and reds:
                    r = reds[0]; rp = g.rule_prec(r); tp = g.term_prec(t)
                    red = rp > tp or (rp == tp and g.rule_assoc(r) == 'ltor')
                    row[t] = ('r', r) if red else ('s', shift)
                    self.conflicts.append((i, t, 'sr', (r, 'reduce' if red else 'shift')))
                elif shift is not None: row[t] = ('s', shift)
                elif reds: row[t] = ('r', reds[0])
                else: row[t] = ('err',)
            self.action.append(row)
            self.goto.append({k: self.trans[i].get(('n', k)) for k in range(g.nnt)})
        # states the parser can actually reach once conflicts are resolved: a shift suppressed by the resolution (reduce preferred, or an R/R cell)
        # is never taken, so a table builder need not (and ctpg does not) create states reachable only through it
        live = {0}; work = [0]
        while work:
            i = work.pop()
            nxt = [self.goto[i][k] for k in range(g.nnt) if self.goto[i][k] is not None] + [a[1] for a in self.action[i].values() if a[0] == 's']
            for j in nxt:
                if j not in live: live.add(j); work.append(j)
        self.live = live
        self.conflicts = [c for c in self.conflicts if c[0] in live]
        self.has_rr = any(c[2] == 'rr' for c in self.conflicts)
        self.has_sr = any(c[2] == 'sr' for c in self.conflicts)
        self.conflict_free = not self.conflicts

    # ---- reference parse in python (mirrors harness/ref_lr.h; used for validation and fail-set authoring)
    def accepts(self, toks):
        """toks: list of term indices (< nt). plain LR parse without recovery."""
        g = self.g; st = [0]; i = 0; toks = list(toks) + [g.nt]
        steps = 0
        while True:
            steps += 1
            if steps > 10000: raise Exception('loop')
            a = self.action[st[-1]][toks[i]]
            if a[0] == 's': st.append(a[1]); i += 1
            elif a[0] == 'r':
                l, rhs = self.R[a[1]]
                if rhs: del st[-len(rhs):]
                st.append(self.goto[st[-1]][l])
            elif a[0] == 'acc': return True
            else: return False

def earley(g, toks):
    """Earley recogniser on term-index strings; grammar rules with 'error' are ignored (never derivable from real input)"""
    R = [(g.sym(r['lhs'])[1], [g.sym(x) for x in r['rhs']]) for r in g.rules if 'error' not in r['rhs']]
    root = g.nterms.index(g.root); n = len(toks)
    S = [set() for _ in range(n + 1)]
    for i, (l, rhs) in enumerate(R):
        if l == root: S[0].add((i, 0, 0))
    for k in range(n + 1):
        work = list(S[k])
        while work:
            (r, d, o) = work.pop()
            l, rhs = R[r]
            if d < len(rhs):
                s = rhs[d]
                if s[0] == 'n':
                    for i2, (l2, _) in enumerate(R):
                        if l2 == s[1]:
                            it = (i2, 0, k)
                            if it not in S[k]: S[k].add(it); work.append(it)
                    # nullable completion (Aycock-Horspool): if some completed item for s[1] spanning k..k exists
                    for (r3, d3, o3) in list(S[k]):
                        if o3 == k and d3 == len(R[r3][1]) and R[r3][0] == s[1]:
                            it = (r, d + 1, o)
                            if it not in S[k]: S[k].add(it); work.append(it)
                elif k < n and toks[k] == s[1]:
                    S[k+1].add((r, d + 1, o))
            else:
                for (r2, d2, o2) in list(S[o]):
                    l2, rhs2 = R[r2]
                    if d2 < len(rhs2) and rhs2[d2] == ('n', l):
                        it = (r2, d2 + 1, o2)
                        if it not in S[k]: S[k].add(it); work.append(it)
    return any(R[r][0] == root and d == len(R[r][1]) and o == 0 for (r, d, o) in S[n])

def validate(g, lr, maxlen):
    """exhaustively compare the LR reference with Earley for all term strings up to maxlen (oracle validation)"""
    n = 0
    for L in range(maxlen + 1):
        for toks in itertools.product(range(g.nt), repeat=L):
            a = lr.accepts(toks); b = earley(g, toks); n += 1
            if a != b: return (False, toks, a, b, n)
    return (True, None, None, None, n)

# ------------------------------------------------------------------ C emission
ACT_ERR, ACT_SHIFT, ACT_REDUCE, ACT_ACC, ACT_RR = 0, 1, 2, 3, 4
FKINDS = {'hash': 0, 'default': 1, 'e1': 2, 'e2': 3, 'e3': 4, 'ctxhash': 5}

def emit_tables(g, lr, prefix='REF'):
    """C tables for harness/ref_lr.h"""
    o = []
    ns = len(lr.states)
    o.append('#define %s_NSTATES %d' % (prefix, ns))
    o.append('#define %s_NT %d' % (prefix, g.nt))
    o.append('#define %s_TERMS %d' % (prefix, g.term_count))
    o.append('#define %s_NNT %d' % (prefix, g.nnt))
    o.append('#define %s_NRULES %d' % (prefix, len(g.rules)))
    o.append('#define %s_MAXRHS %d' % (prefix, g.max_rhs))
    o.append('#define %s_EMPTY_RULES %d' % (prefix, g.empty_rules))
    act = []; arg = []
    for i in range(ns):
        ra = []; rg = []
        for t in range(g.term_count):
            a = lr.action[i][t]
            if a[0] == 's': ra.append(ACT_SHIFT); rg.append(a[1])
            elif a[0] == 'r': ra.append(ACT_REDUCE); rg.append(a[1])
            elif a[0] == 'acc': ra.append(ACT_ACC); rg.append(0)
            elif a[0] == 'rr': ra.append(ACT_RR); rg.append(a[1][0])
            else: ra.append(ACT_ERR); rg.append(0)
        act.append('{%s}' % ','.join(map(str, ra))); arg.append('{%s}' % ','.join(map(str, rg)))
    o.append('static const uint8_t %s_act[%d][%d] = {%s};' % (prefix, ns, g.term_count, ','.join(act)))
    o.append('static const uint16_t %s_arg[%d][%d] = {%s};' % (prefix, ns, g.term_count, ','.join(arg)))
    o.append('static const uint16_t %s_goto[%d][%d] = {%s};' % (prefix, ns, g.nnt, ','.join('{%s}' % ','.join(str(lr.goto[i][k] if lr.goto[i][k] is not None else 65535) for k in range(g.nnt)) for i in range(ns))))
    nr = len(g.rules)
    o.append('static const uint16_t %s_rule_lhs[%d] = {%s};' % (prefix, nr + 1, ','.join(str(lr.R[r][0]) for r in range(nr + 1))))
    o.append('static const uint16_t %s_rule_len[%d] = {%s};' % (prefix, nr + 1, ','.join(str(len(lr.R[r][1])) for r in range(nr + 1))))
    o.append('static const uint8_t %s_rule_f[%d] = {%s};' % (prefix, nr + 1, ','.join([str(FKINDS[r['f']]) for r in g.rules] + ['1'])))
    # is right-side position k of rule r a term? (bitmask)
    o.append('static const uint16_t %s_rule_tmask[%d] = {%s};' % (prefix, nr + 1, ','.join(str(sum((1 << k) for k, s in enumerate(lr.R[r][1]) if s[0] == 't' and s[1] != g.nt + 1)) for r in range(nr + 1))))
    return '\n'.join(o) + '\n'

# ------------------------------------------------------------------ python mirror of harness/ref_lr.h (token level)
# input symbols: 0..nt-1 = that term (one byte), 'w' = skippable blank, 'n' = newline, 'x' = byte no term matches
def simulate(g, lr, toks, ws=False, nl=False, verbose=False):
    """returns dict(ok, steps, depth, nmsg, nred, nterm, msgs=[(kind,pos,a)], reds=[...])"""
    n = len(toks); pos = 0; st = [0]; have = False; recovery = consume = False
    msgs = []; reds = []; nterm = 0; steps = 0; depth = 1; term = None; nshift = 0; dstates = dterms = 0
    def res(ok): return dict(ok=ok, steps=steps, depth=depth, nmsg=len(msgs), nred=len(reds), nterm=nterm, msgs=msgs, reds=reds, nshift=nshift,
                             dstates=dstates, dterms=dterms)
    while True:
        steps += 1
        if steps > 100000: raise Exception('reference does not terminate')
        if recovery: la = g.nt + 1
        else:
            if not have:
                if ws:
                    while pos < n and (toks[pos] == 'w' or (nl and toks[pos] == 'n')): pos += 1
                if pos == n: term = g.nt
                elif not isinstance(toks[pos], int): msgs.append(('UNEXPECTED_CHAR', pos, toks[pos])); return res(False)
                else:
                    term = toks[pos]
                    if verbose: msgs.append(('RECOGNIZED', pos, term))
                have = pos != n
            la = term
        a = lr.action[st[-1]][la]
        if a[0] == 'err':
            if consume:
                if term == g.nt: return res(False)
                if verbose: msgs.append(('CONSUMING', pos, term))
                pos += 1; have = False; dterms += 1; continue
            if not recovery:
                msgs.append(('SYNTAX_ERROR', pos, term))
                if verbose: msgs.append(('ENTER_RECOVERY', pos, 0))
                recovery = True
                continue
            if len(st) == 1:
                if verbose: msgs.append(('COULD_NOT_RECOVER', pos, 0))
                return res(False)
            st.pop(); dstates += 1
            if verbose: msgs.append(('RECOVERING_TO', pos, st[-1]))
            continue
        if consume:
            consume = False
            if verbose: msgs.append(('LEAVE_CONSUME', pos, 0))
        if a[0] == 's':
            if verbose: msgs.append(('SHIFT', pos, a[1]))
            st.append(a[1]); depth = max(depth, len(st))
            if la == g.nt + 1:
                if verbose: msgs += [('LEAVE_RECOVERY', pos, 0), ('ENTER_CONSUME', pos, 0)]
                recovery = False; consume = True
            else: pos += 1; have = False; nshift += 1
        elif a[0] == 'r':
            r = a[1]; l, rhs = lr.R[r]
            if verbose: msgs.append(('REDUCE', pos, r))
            if g.rules[r]['f'] in ('hash', 'ctxhash'):
                reds.append(r); nterm += sum(1 for s in rhs if s[0] == 't' and s[1] != g.nt + 1)
            if rhs: del st[-len(rhs):]
            st.append(lr.goto[st[-1]][l]); depth = max(depth, len(st))
            if verbose: msgs.append(('GOTO', pos, st[-1]))
        elif a[0] == 'acc':
            if verbose: msgs.append(('SUCCESS', pos, 0))
            return res(True)
        else: return res(None)   # rr conflict

def bounds(g, lr, L, verbose=False, with_other=True):
    """max steps / depth / log sizes over all inputs of exactly L symbols (terms + one non-term byte class)"""
    alpha = list(range(g.nt)) + (['x'] if with_other else [])
    m = dict(steps=0, depth=0, nmsg=0, nred=0, nterm=0, accepted=0, total=0, recovered=0, nstates_printed=0, syn_only=0, lex_only=0, acc_nred=0)
    for toks in itertools.product(alpha, repeat=L):
        r = simulate(g, lr, toks, verbose=verbose)
        for k in ('steps', 'depth', 'nmsg', 'nred', 'nterm'): m[k] = max(m[k], r[k])
        m['nstates_printed'] = max(m['nstates_printed'], sum(1 for x in r['msgs'] if x[0] in ('SHIFT', 'GOTO', 'RECOVERING_TO')))
        m['total'] += 1
        if r['ok']: m['accepted'] += 1; m['acc_nred'] = max(m['acc_nred'], r['nred'])
        if r['ok'] and any(x[0] == 'SYNTAX_ERROR' for x in r['msgs']): m['recovered'] += 1
        em = [x[0] for x in r['msgs'] if x[0] in ('SYNTAX_ERROR', 'UNEXPECTED_CHAR')]
        if not r['ok'] and em == ['SYNTAX_ERROR']: m['syn_only'] += 1
        if not r['ok'] and em == ['UNEXPECTED_CHAR']: m['lex_only'] += 1
    return m
